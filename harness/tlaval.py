"""Parser for TLA+ values as TLC prints them (PrintT lines, -dump states, -simulate trace files, dot labels)."""


class TlaParseError(Exception):
    pass


def parse(s):
    v, i = _val(s, _ws(s, 0))
    i = _ws(s, i)
    if i != len(s):
        raise TlaParseError("trailing text at %d: %r" % (i, s[i:i + 40]))
    return v


def parse_prefix(s, i=0):
    return _val(s, _ws(s, i))


def _ws(s, i):
    while i < len(s) and s[i] in " \t\r\n":
        i += 1
    return i


def _val(s, i):
    if s.startswith("<<", i):
        return _seq(s, i + 2, ">>", tuple)
    c = s[i]
    if c == "{":
        v, i = _seq(s, i + 1, "}", list)
        return ("set", v), i
    if c == "[":
        return _rec(s, i + 1)
    if c == "(":
        return _fun(s, i + 1)
    if c == '"':
        j = i + 1
        out = []
        while s[j] != '"':
            if s[j] == "\\":
                j += 1
                out.append({"n": "\n", "t": "\t", "r": "\r"}.get(s[j], s[j]))
            else:
                out.append(s[j])
            j += 1
        return "".join(out), j + 1
    if c == "-" or c.isdigit():
        j = i + 1
        while j < len(s) and s[j].isdigit():
            j += 1
        if s.startswith("..", j):  # interval a..b
            k = j + 2
            m = k + 1
            while m < len(s) and s[m].isdigit():
                m += 1
            return ("set", list(range(int(s[i:j]), int(s[k:m]) + 1))), m
        return int(s[i:j]), j
    j = i
    while j < len(s) and (s[j].isalnum() or s[j] == "_"):
        j += 1
    w = s[i:j]
    if w == "TRUE":
        return True, j
    if w == "FALSE":
        return False, j
    if w:
        return ("mv", w), j  # model value
    raise TlaParseError("cannot parse at %d: %r" % (i, s[i:i + 40]))


def _seq(s, i, close, mk):
    out = []
    i = _ws(s, i)
    if s.startswith(close, i):
        return mk(out), i + len(close)
    while True:
        v, i = _val(s, _ws(s, i))
        out.append(v)
        i = _ws(s, i)
        if s.startswith(close, i):
            return mk(out), i + len(close)
        if s[i] != ",":
            raise TlaParseError("expected , at %d: %r" % (i, s[i:i + 40]))
        i += 1


def _rec(s, i):
    out = {}
    i = _ws(s, i)
    if s[i] == "]":
        return out, i + 1
    while True:
        i = _ws(s, i)
        j = i
        while s[j].isalnum() or s[j] == "_":
            j += 1
        k = s[i:j]
        i = _ws(s, j)
        if not s.startswith("|->", i):
            raise TlaParseError("expected |-> at %d: %r" % (i, s[i:i + 40]))
        v, i = _val(s, _ws(s, i + 3))
        out[k] = v
        i = _ws(s, i)
        if s[i] == "]":
            return out, i + 1
        if s[i] != ",":
            raise TlaParseError("expected , at %d" % i)
        i += 1


def _fun(s, i):
    out = {}
    while True:
        k, i = _val(s, _ws(s, i))
        i = _ws(s, i)
        if not s.startswith(":>", i):
            raise TlaParseError("expected :> at %d: %r" % (i, s[i:i + 40]))
        v, i = _val(s, _ws(s, i + 2))
        out[k if not isinstance(k, tuple) or k[:1] != ("mv",) else k[1]] = v
        i = _ws(s, i)
        if s[i] == ")":
            return out, i + 1
        if not s.startswith("@@", i):
            raise TlaParseError("expected @@ at %d" % i)
        i += 2


def to_tla(v):
    """Python value -> TLA+ literal (for cfg/MC modules)."""
    if isinstance(v, bool):
        return "TRUE" if v else "FALSE"
    if isinstance(v, int):
        return str(v)
    if isinstance(v, str):
        return '"' + v.replace("\\", "\\\\").replace('"', '\\"') + '"'
    if isinstance(v, (list, tuple)):
        return "<<" + ", ".join(to_tla(x) for x in v) + ">>"
    if isinstance(v, (set, frozenset)):
        return "{" + ", ".join(to_tla(x) for x in sorted(v, key=repr)) + "}"
    if isinstance(v, dict):
        if not v:
            return "<<>>"
        return "[" + ", ".join("%s |-> %s" % (k, to_tla(x)) for k, x in v.items()) + "]"
    raise TypeError(v)
