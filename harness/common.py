"""Shared plumbing: contexts, evidence, known findings, event shards judged by TLC trace specifications."""
import json
import os
import sys
import time
import hashlib

VERIF = os.path.dirname(os.path.dirname(os.path.abspath(__file__)))
REPO = os.environ.get("VERIF_REPO", "/repo")
GUARD = "HL7APY_VERIF"

LEVEL = "model_checking"


def seed():
    try:
        return int(os.environ.get("VERIF_SEED", "0"))
    except ValueError:
        return 0


def cps(s):
    return [ord(c) for c in s]


def uncps(a):
    return "".join(chr(c) for c in a)


def load_findings():
    with open(os.path.join(VERIF, "known_findings.json")) as f:
        return json.load(f)


class Ctx(object):
    """One run of one property's check."""

    def __init__(self, pid, tier):
        self.pid = pid
        self.tier = tier
        self.seed = seed()
        self.t0 = time.time()
        self.states = 0
        self.transitions = 0
        self.traces = 0
        self.evaluations = 0
        self.nontrivial_keys = set()
        self.samples = []
        self.rule = ""
        self.exhaustive = False
        self.assumptions = []
        self.extra = {}
        self.violations = []       # (signature, detail)
        self.known_hit = {}        # finding id -> count
        self.findings = [f for f in load_findings() if f.get("property") == pid and f.get("kind") == "finding"]
        self.machinery = []
        self.notes = []
        rdir = os.path.join(VERIF, "replays")
        if os.path.isdir(rdir):
            for fn in os.listdir(rdir):
                if fn.startswith(pid + "_"):
                    os.unlink(os.path.join(rdir, fn))

    # -- bookkeeping -----------------------------------------------------------------------------
    def add_mc(self, r, what=""):
        self.states += r.distinct
        self.transitions += r.generated
        self.extra.setdefault("mc_runs", []).append(
            {"what": what, "distinct": r.distinct, "generated": r.generated, "depth": r.depth,
             "wall_s": round(r.wall, 1)})

    def sample(self, x, cap=6):
        if len(self.samples) < cap:
            self.samples.append(x)

    def nontrivial(self, key):
        self.nontrivial_keys.add(key if isinstance(key, (str, int, tuple)) else json.dumps(key, sort_keys=True))

    def machinery_failure(self, text):
        self.machinery.append(text)

    # -- verdicts --------------------------------------------------------------------------------
    def fail(self, signature, detail):
        """A verdict failed. signature: flat dict naming input class / call site / history and the wrong
        behaviour observed; detail: anything needed to replay."""
        for f in self.findings:
            if _matches(f["match"], signature):
                self.known_hit[f["id"]] = self.known_hit.get(f["id"], 0) + 1
                return "known"
        self.violations.append((signature, detail))
        return "violation"

    def finish(self):
        wall = time.time() - self.t0
        cov = {
            "states": self.states,
            "transitions": self.transitions,
            "traces_validated_against_impl": self.traces,
            "samples": self.samples or ["(none)"],
            "evaluations": self.evaluations,
            "distinct_nontrivial": len(self.nontrivial_keys),
            "rule": self.rule,
            "exhaustive": self.exhaustive,
            "known_findings_hit": self.known_hit,
        }
        cov.update(self.extra)
        ev = {
            "property_id": self.pid, "tier": self.tier, "seed": self.seed, "level": LEVEL,
            "coverage": cov, "assumptions": self.assumptions, "wall_s": round(wall, 2),
            "violations": len(self.violations),
        }
        if self.notes:
            ev["notes"] = self.notes
        os.makedirs(os.path.join(VERIF, "evidence"), exist_ok=True)
        path = os.path.join(VERIF, "evidence", self.pid + ".json")
        tmp = path + ".tmp"
        with open(tmp, "w") as f:
            json.dump(ev, f, indent=1, sort_keys=True, default=str)
        os.replace(tmp, path)
        for f in self.findings:
            if f["id"] in self.known_hit:
                print("KNOWN-FINDING: property=%s %s [%s, %d observation(s)]" %
                      (self.pid, f["text"], f["id"], self.known_hit[f["id"]]))
        if self.machinery:
            for m in self.machinery:
                print("MACHINERY-FAILURE property=%s %s" % (self.pid, m))
            return 2
        if self.violations:
            rdir = os.path.join(VERIF, "replays")
            os.makedirs(rdir, exist_ok=True)
            seen = set()
            n = 0
            with open(os.path.join(rdir, "%s_all.json" % self.pid), "w") as f:
                json.dump([v[0] for v in self.violations], f, default=str)
            for sig, detail in self.violations:
                k = json.dumps(sig, sort_keys=True, default=str)
                if k in seen:
                    continue
                seen.add(k)
                n += 1
                if n > 25:
                    continue
                h = hashlib.sha1(k.encode()).hexdigest()[:10]
                rp = os.path.join(rdir, "%s_%s.json" % (self.pid, h))
                with open(rp, "w") as f:
                    json.dump({"property": self.pid, "signature": sig, "detail": detail}, f, indent=1, default=str)
                print("VIOLATION property=%s replay=%s  %s" % (self.pid, rp, k[:300]))
            print("%s: %d failing verdict(s), %d distinct signature(s)" % (self.pid, len(self.violations), len(seen)))
            return 1
        print("%s %s: held on everything explored (%d states, %d transitions, %d impl traces/events judged, "
              "%d distinct non-trivial) in %.1fs" % (self.pid, self.tier, self.states, self.transitions, self.traces,
                                                     len(self.nontrivial_keys), wall))
        return 0


def _matches(pattern, sig):
    for k, v in pattern.items():
        if k not in sig:
            return False
        s = sig[k]
        if isinstance(v, list) and not isinstance(s, list):
            if s not in v:
                return False
        elif s != v:
            return False
    return True


# -- events judged by TLC -----------------------------------------------------------------------

def judge(ctx, module, cfg, events, shards=16, env=None, timeout=3000, id_key="id", heap="3g"):
    """Write events to NDJSON shards, let the TLC trace specification `module` judge every one.
    Returns {event id: clause} for failing events and the set of ids whose premise was false ('trivial').
    Each shard prints <<"V", id, clause>>, <<"T", id>> and a final <<"S", judged, nontrivial, failed>>."""
    from . import tlc
    import shutil
    if not events:
        return {}, set()
    td = tlc.tmpdir("ev_")
    try:
        shards = max(1, min(shards, (len(events) + 199) // 200))
        files = []
        for k in range(shards):
            part = events[k::shards]
            p = os.path.join(td, "ev%d.ndjson" % k)
            with open(p, "w") as f:
                for e in part:
                    f.write(json.dumps(_nonull(e), separators=(",", ":")) + "\n")
            files.append((p, len(part)))
        jobs = []
        for p, n in files:
            e = {"EVENTS": p}
            e.update(env or {})
            jobs.append(dict(module=module, cfg=cfg, env=e, workers=1, timeout=timeout, heap=heap))
        results = tlc.run_many(jobs, parallel=16)
        failed, trivial = {}, set()
        for (p, n), r in zip(files, results):
            summ = None
            for pr in r.prints:
                if pr and pr[0] == "V":
                    failed[pr[1]] = pr[2] if len(pr) == 3 else (pr[2],) + tuple(pr[3:])
                elif pr and pr[0] == "T":
                    trivial.add(pr[1])
                elif pr and pr[0] == "S":
                    summ = pr
            if summ is None or summ[1] != n or not r.completed:
                ctx.machinery_failure("trace spec %s did not judge all %d events of a shard (summary %r, violated=%r)\n%s"
                                      % (module, n, summ, r.violated, r.raw[-1500:]))
            ctx.states += r.distinct
            ctx.transitions += r.generated
        ctx.traces += len(events)
        return failed, trivial
    finally:
        shutil.rmtree(td, ignore_errors=True)


def import_hl7apy():
    if REPO not in sys.path:
        sys.path.insert(0, REPO)
    import hl7apy  # noqa
    return hl7apy


def _nonull(x):
    """TLC's JSON reader rejects null: drop None-valued keys, turn None items into empty strings."""
    if isinstance(x, dict):
        return {k: _nonull(v) for k, v in x.items() if v is not None}
    if isinstance(x, (list, tuple)):
        return [_nonull(v) if v is not None else "" for v in x]
    return x


def pmap(func, items, procs=16, fresh=False):
    """Run func over items in worker processes (fresh interpreters importing /repo's working tree).  fresh=True: one
    process per item, forked from the parent, so that nothing an earlier item did in the same worker (caches filled by
    whoever came first) can hide or cause a difference."""
    import multiprocessing as mp
    if not items:
        return []
    ctx = mp.get_context("fork")
    with ctx.Pool(min(procs, len(items)), maxtasksperchild=1 if fresh else None) as pool:
        return pool.map(func, items, chunksize=1)


def exc_name(e):
    return type(e).__name__
