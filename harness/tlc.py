"""Run TLC (model checking, simulation, trace judging) and parse what it reports."""
import os
import re
import shutil
import subprocess
import tempfile
import time
from concurrent.futures import ThreadPoolExecutor

from . import tlaval

SPEC_DIR = os.path.join(os.path.dirname(os.path.dirname(os.path.abspath(__file__))), "spec")
JAR = "/opt/veriftools/tla/tla2tools.jar:/opt/veriftools/tla/CommunityModules-deps.jar"


class TlcFailure(Exception):
    """TLC could not be run or its output could not be understood (machinery failure, exit 2)."""


class TlcResult(object):
    def __init__(self):
        self.generated = 0
        self.distinct = 0
        self.depth = 0
        self.prints = []
        self.violated = None      # name of a violated invariant / property, or 'deadlock' / 'assert'
        self.error_text = ""
        self.completed = False
        self.coverage = {}        # action name -> (distinct, total)
        self.wall = 0.0
        self.raw = ""
        self.trace = []           # counterexample states (raw text blocks)


_RE_COUNTS = re.compile(r"(\d+) states generated, (\d+) distinct states found")
_RE_DEPTH = re.compile(r"The depth of the complete state graph search is (\d+)")
_RE_INV = re.compile(r"Error: Invariant (\S+) is violated")
_RE_PROP = re.compile(r"Error: (?:Action|Temporal) propert(?:y|ies) (\S*)")
_RE_COV = re.compile(r"^<(\w+) line \d+, col \d+ to line \d+, col \d+ of module (\w+)>: (\d+):(\d+)")


def tmpdir(prefix="vf_"):
    return tempfile.mkdtemp(prefix=prefix, dir=os.environ.get("VERIF_TMP", "/tmp"))


def run(module, cfg, env=None, workers=1, extra=(), timeout=3600, coverage=False, heap="4g",
        keep=None, dfs=False):
    """Run TLC on spec/<module>.tla with spec/<cfg>. Returns TlcResult. Raises TlcFailure on parse errors."""
    md = tmpdir("tlc_")
    try:
        cmd = ["java", "-XX:+UseParallelGC", "-Xmx" + heap, "-Xss64m"]
        if dfs:
            cmd.append("-Dtlc2.tool.queue.IStateQueue=StateDeque")
        cmd += ["-cp", JAR, "tlc2.TLC", "-workers", str(workers), "-metadir", md, "-noGenerateSpecTE",
                "-config", cfg]
        if coverage:
            cmd += ["-coverage", "1"]
        cmd += list(extra) + [module]
        e = dict(os.environ)
        e.update(env or {})
        t0 = time.time()
        try:
            p = subprocess.run(cmd, cwd=SPEC_DIR, env=e, stdout=subprocess.PIPE, stderr=subprocess.STDOUT,
                               timeout=timeout)
        except subprocess.TimeoutExpired as ex:
            raise TlcFailure("TLC timed out after %ss on %s/%s" % (timeout, module, cfg))
        out = p.stdout.decode("utf-8", "replace")
        if "TLC threw an unexpected exception" in out and workers != 1 and "-simulate" not in extra:
            # TLC's lazily normalised record values are not thread-safe ("nonexistent field" on a field that
            # exists): a multi-worker run that trips over this is repeated with one worker
            shutil.rmtree(md, ignore_errors=True)
            return run(module, cfg, env=env, workers=1, extra=extra, timeout=timeout, coverage=coverage, heap=heap,
                       keep=keep, dfs=dfs)
        r = parse_output(out)
        r.wall = time.time() - t0
        if keep:
            with open(keep, "w") as f:
                f.write(out)
        return r
    finally:
        shutil.rmtree(md, ignore_errors=True)


def parse_output(out):
    r = TlcResult()
    r.raw = out
    lines = out.split("\n")
    i = 0
    buf = None
    while i < len(lines):
        ln = lines[i]
        if buf is not None:
            buf += "\n" + ln
            try:
                r.prints.append(tlaval.parse(buf))
                buf = None
            except (tlaval.TlaParseError, IndexError):
                if len(buf) > 2000000:
                    raise TlcFailure("unterminated PrintT value")
            i += 1
            continue
        if ln.startswith("<<"):
            try:
                r.prints.append(tlaval.parse(ln))
            except (tlaval.TlaParseError, IndexError):
                buf = ln
            i += 1
            continue
        m = _RE_COUNTS.search(ln)
        if m:
            r.generated, r.distinct = int(m.group(1)), int(m.group(2))
        m = _RE_DEPTH.search(ln)
        if m:
            r.depth = int(m.group(1))
        m = _RE_INV.search(ln)
        if m:
            r.violated = m.group(1)
        m = _RE_PROP.search(ln)
        if m and not r.violated:
            r.violated = m.group(1) or "property"
        if "Deadlock reached" in ln and not r.violated:
            r.violated = "deadlock"
        if ln.startswith("Error:") and not r.error_text:
            r.error_text = "\n".join(lines[i:i + 12])
        if "Model checking completed. No error has been found" in ln:
            r.completed = True
        if "Finished computing initial states" in ln:
            pass
        m = _RE_COV.match(ln)
        if m:
            r.coverage[m.group(1)] = (int(m.group(3)), int(m.group(4)))
        i += 1
    if "Parsing or semantic analysis failed" in out or "Semantic errors" in out or "***Parse Error***" in out:
        raise TlcFailure("SANY rejected the specification:\n" + out[-3000:])
    if r.error_text and not r.violated:
        if "Postcondition" in r.error_text or "postcondition" in r.error_text.lower():
            r.violated = "postcondition"
        elif "Assumption" in r.error_text:
            r.violated = "assumption"
        else:
            r.violated = "error"
    if re.search(r"^State \d+:", out, re.M) and r.violated:
        r.trace = re.findall(r"^State \d+:.*?(?=^State \d+:|\Z|^\d+ states generated)", out, re.M | re.S)
    return r


def run_many(jobs, parallel=16):
    """jobs: list of kwargs dicts for run(); returns results in order."""
    with ThreadPoolExecutor(max_workers=parallel) as ex:
        futs = [ex.submit(run, **j) for j in jobs]
        return [f.result() for f in futs]


def simulate(module, cfg, num, depth, seed, workers=1, timeout=3600, env=None):
    """tlc -simulate writing one trace file per behaviour; returns list of behaviours, each a list of
    (action_name, state_dict)."""
    td = tmpdir("sim_")
    try:
        r = run(module, cfg, env=env, workers=workers, timeout=timeout,
                extra=["-simulate", "file=%s/tr,num=%d" % (td, num), "-depth", str(depth), "-seed", str(seed)])
        behaviours = []
        for fn in sorted(os.listdir(td)):
            behaviours.append(parse_trace_file(os.path.join(td, fn)))
        return r, behaviours
    finally:
        shutil.rmtree(td, ignore_errors=True)


_RE_ACT = re.compile(r"^\\\* <(\w+)(?:\((.*?)\))? line")


def parse_trace_file(path):
    out = []
    act = None
    txt = open(path).read()
    for blk in re.split(r"\n(?=\\\* )", txt):
        m = re.match(r"\\\* <?(\w+)", blk)
        if not m:
            continue
        act = m.group(1)
        m2 = re.search(r"STATE_\d+ ==\s*(.*)", blk, re.S)
        if not m2:
            continue
        out.append((act, parse_state(m2.group(1))))
    return out


def parse_state(txt):
    """'/\\ a = v\n/\\ b = w' -> dict"""
    st = {}
    parts = re.split(r"(?:^|\n)\s*/\\ ", txt.strip())
    for p in parts:
        p = p.strip()
        if not p:
            continue
        k, v = p.split(" = ", 1)
        v = v.strip()
        # a trailing blank line / next block may follow
        try:
            st[k.strip()] = tlaval.parse(v)
        except (tlaval.TlaParseError, IndexError):
            val, _ = tlaval.parse_prefix(v)
            st[k.strip()] = val
    return st


def dump_states(module, cfg, workers=8, timeout=3600, env=None):
    """Exhaustive run with -dump: returns (TlcResult, [state dict])."""
    td = tmpdir("dump_")
    try:
        path = os.path.join(td, "states")
        r = run(module, cfg, env=env, workers=workers, timeout=timeout, extra=["-dump", path])
        states = []
        fn = path + ".dump" if os.path.exists(path + ".dump") else path
        # (TLC's workers write the states in an order that differs from run to run: sorted, so that everything sampled
        #  from them with a seeded generator is the same in every run; read block by block - dumps reach gigabytes)
        blocks, cur = [], []
        with open(fn) as f:
            for ln in f:
                if re.match(r"^State \d+:\s*$", ln):
                    if cur:
                        blocks.append("".join(cur).strip())
                    cur = []
                else:
                    cur.append(ln)
        if cur:
            blocks.append("".join(cur).strip())
        blocks = [b for b in blocks if b]
        blocks.sort()
        blocks.reverse()
        while blocks:
            states.append(parse_state(blocks.pop()))
        return r, states
    finally:
        shutil.rmtree(td, ignore_errors=True)


def dump_graph(module, cfg, workers=8, timeout=3600, env=None):
    """Exhaustive run with -dump dot,actionlabels. Returns (TlcResult, nodes{id: state}, edges[(src, label, dst)])."""
    td = tmpdir("dot_")
    try:
        path = os.path.join(td, "g")
        r = run(module, cfg, env=env, workers=workers, timeout=timeout,
                extra=["-dump", "dot,actionlabels", path])
        fn = path + ".dot" if os.path.exists(path + ".dot") else path
        nodes, edges = {}, []
        for ln in open(fn):
            m = re.match(r'^(-?\d+) -> (-?\d+) \[label="(.*?)",color', ln)
            if m:
                edges.append((m.group(1), m.group(3).replace('\\"', '"'), m.group(2)))
                continue
            m = re.match(r'^(-?\d+) \[label="(.*?)(?<!\\)"(?:,tooltip=|,style = filled\])', ln)
            if m:
                lab = m.group(2).replace('\\"', '"').replace("\\n", "\n").replace("\\\\", "\\")
                nodes[m.group(1)] = parse_state(lab)
        edges.sort()        # (file order differs from run to run; see dump_states)
        nodes = dict(sorted(nodes.items()))
        return r, nodes, edges
    finally:
        shutil.rmtree(td, ignore_errors=True)
