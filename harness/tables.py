"""Export of /repo's structure tables (current working tree) as plain data."""
import importlib
from .common import import_hl7apy

_cache = {}


def versions():
    h = import_hl7apy()
    return sorted(h.SUPPORTED_LIBRARIES.keys(), key=lambda v: [int(x) for x in v.split(".")])


def lib(v):
    h = import_hl7apy()
    return importlib.import_module(h.SUPPORTED_LIBRARIES[v])


def is_base(v, dt):
    return dt in lib(v).BASE_DATATYPES


def kind(v, dt):
    if dt == "varies":
        return "varies"
    return "base" if is_base(v, dt) else "complex"


def _idx(name):
    try:
        return int(name.rsplit("_", 1)[1])
    except (ValueError, IndexError):
        return 0


def dt_rows(v, dt):
    """Components of complex datatype dt: [{name, j, dt, kind, long, max, subs:[{name,k,dt,long}]}]."""
    key = ("dt", v, dt)
    if key in _cache:
        return _cache[key]
    L = lib(v)
    rows = []
    struct = L.DATATYPES_STRUCTS.get(dt)
    if struct is None:
        _cache[key] = None
        return None
    for (name, ref, card, cls) in struct:
        cdt = ref[2]
        row = {"name": name, "j": _idx(name), "dt": cdt, "kind": kind(v, cdt), "long": ref[3],
               "min": card[0], "max": card[1], "subs": []}
        if row["kind"] == "complex":
            sub = L.DATATYPES_STRUCTS.get(cdt)
            if sub is not None:
                for (sname, sref, scard, scls) in sub:
                    row["subs"].append({"name": sname, "k": _idx(sname), "dt": sref[2], "long": sref[3],
                                        "kind": kind(v, sref[2])})
        rows.append(row)
    _cache[key] = rows
    return rows


def seg_names(v):
    return sorted(lib(v).SEGMENTS.keys())


def seg_rows(v, seg):
    """Fields of a segment in table order: [{name, i, dt, kind, min, max, long, maxlen, table}]; None if broken."""
    key = ("seg", v, seg)
    if key in _cache:
        return _cache[key]
    L = lib(v)
    rows = []
    try:
        ref = L.SEGMENTS[seg]
        for (name, fref, card, cls) in (ref[1] if len(ref) > 1 else ()):
            dt = fref[2]
            rows.append({"name": name, "i": _idx(name), "dt": dt, "kind": kind(v, dt), "min": card[0], "max": card[1],
                         "long": fref[3], "table": fref[4], "maxlen": fref[5]})
    except Exception:
        rows = None
    _cache[key] = rows
    return rows


def complex_datatypes(v):
    return sorted(lib(v).DATATYPES_STRUCTS.keys())


def message_names(v):
    """names of the message structures a Message can be created for (the tables also carry the templates QBP_Qnn,
    RTB_Knn, MFN_Znn, RSP_Znn, whose names Message() refuses)"""
    import re
    return sorted(n for n in lib(v).MESSAGES.keys() if re.match(r"^[A-Z][A-Z0-9]*(_[A-Z0-9]+)?$", n))


def structure(v, name):
    """Nested message structure: {name, kind:'MSG', content, kids:[{name, kind:'SEG'|'GRP', min, max, kids...}]}."""
    L = lib(v)
    ref = L.MESSAGES[name]

    def walk(ref):
        out = []
        for (cname, cref, card, cls) in ref[1]:
            node = {"name": cname, "kind": cls, "min": card[0], "max": card[1]}
            if cls == "GRP":
                node["content"] = cref[0]
                node["kids"] = walk(cref)
            out.append(node)
        return out
    return {"name": name, "kind": "MSG", "content": ref[0], "kids": walk(ref)}


def base_datatype_classes(v):
    return {k: c.__module__ + "." + c.__name__ for k, c in lib(v).BASE_DATATYPES.items()}
