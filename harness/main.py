import argparse
import importlib
import os
import sys
import traceback

from .common import Ctx, VERIF


def main():
    ap = argparse.ArgumentParser()
    ap.add_argument("pid")
    ap.add_argument("--tier", default=os.environ.get("VERIF_TIER", "quick"), choices=["quick", "thorough"])
    ap.add_argument("--replay")
    a = ap.parse_args()
    pid = a.pid.upper()
    os.chdir(VERIF)
    try:
        mod = importlib.import_module("harness.drivers." + pid.lower())
    except ImportError:
        traceback.print_exc()
        print("MACHINERY-FAILURE no driver for %s" % pid)
        return 2
    ctx = Ctx(pid, a.tier)
    try:
        if a.replay:
            mod.replay(ctx, a.replay)
        else:
            mod.run(ctx)
    except Exception:
        traceback.print_exc()
        ctx.machinery_failure("driver crashed: " + traceback.format_exc().splitlines()[-1])
    return ctx.finish()


if __name__ == "__main__":
    sys.exit(main())
