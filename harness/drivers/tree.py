"""Shared driver for the element-container properties C09 C10 C11 C12 (and the C05 lock-step run).

R: behaviours come from TLC — the dumped state graph of ElementTreeMC (every reachable state x every operation
   of the alphabet) and -simulate walks of a larger instance — and are stepped through real hl7apy elements.
T: every step is recorded as (projected state before, operation, outcome class, projected state after, other public
   views) and judged by the TLC trace specification ElementTreeTrace, which re-uses ElementTree!Succ.
The projection uses the public API only: children lists, by-name lookups, parent, to_er7, validate."""
import collections
import json
import os
import random

from .. import tlc
from ..common import cps, pmap, judge, import_hl7apy, exc_name

NAMES = ["A", "B", "C"]
V1, V2 = "1", "2"

STEP_CLAUSES = {"wrong_state", "encoding_differs_from_list_model"}
ACCEPT_CLAUSES = {"accepted_but_must_reject", "rejected_but_must_succeed"}
VIEW_CLAUSES = {"child_listed_twice", "child_listed_by_two_parents", "iter_len_disagree", "byname_view_disagrees",
                "listed_child_not_contained", "removed_child_still_contained",
                "byname_len_disagrees", "parent_pointer", "mixed_level_or_version"}
READ_CLAUSES = {"read_raised", "read_changed_children", "read_changed_encoding", "read_changed_validation"}
ATOMIC_CLAUSES = {"rejected_not_atomic"}


# ------------------------------------------------------------------------------------------------
# concretisations: how the abstract parents / names / values map to real elements
# ------------------------------------------------------------------------------------------------
class Concrete(object):
    def __init__(self, kind, version, strict, poison=False):
        """poison (C05): objects built at the OTHER level than a STRICT parent carry what only TOLERANT lets in (an
        overridden datatype, same text), so that letting one in shows in validate()"""
        self.poison = poison and strict
        import_hl7apy()
        from hl7apy.consts import VALIDATION_LEVEL as VL
        self.kind = kind
        self.version = version
        self.strict = strict
        self.lvl = VL.STRICT if strict else VL.TOLERANT
        self.other = VL.TOLERANT if strict else VL.STRICT
        if kind == "seg":
            self.cname = {"A": "PID_8", "B": "PID_3", "C": "PID_5", "Z": "NK1_2"}
            self.lay = {"kind": "slots", "prefix": cps("PID"), "sep": 124, "rep": 126, "n": 8,
                        "slots": [["A", 8], ["B", 3], ["C", 5]]}
        elif kind == "zseg":       # an open-ended segment: every index is a field
            self.cname = {"A": "ZIN_2", "B": "ZIN_5", "C": "ZIN_9", "Z": "NK1_2"}
            self.lay = {"kind": "slots", "prefix": cps("ZIN"), "sep": 124, "rep": 126, "n": 9,
                        "slots": [["A", 2], ["B", 5], ["C", 9]]}
        elif kind == "grp":
            self.cname = {"A": "IN1", "B": "IN3", "C": "ROL", "Z": "PID_1"}
            if strict:
                self.lay = {"kind": "ranked", "sep": 13, "slots": [["A", 1], ["B", 3], ["C", 4]],
                            "cname": [[k, cps(v)] for k, v in self.cname.items()]}
            else:
                self.lay = {"kind": "list", "sep": 13, "cname": [[k, cps(v)] for k, v in self.cname.items()]}
        else:
            raise ValueError(kind)

    def parent(self):
        from hl7apy.core import Segment, Group
        if self.kind == "seg":
            return Segment("PID", version=self.version, validation_level=self.lvl)
        if self.kind == "zseg":
            return Segment("ZIN", version=self.version, validation_level=self.lvl)
        return Group("ADT_A01_INSURANCE", version=self.version, validation_level=self.lvl)

    def text(self, n, v):
        """concrete text assigned for abstract value v under name n"""
        if self.kind in ("seg", "zseg"):
            return v
        return self.cname[n] + ("|" + v if v else "")

    def deep_write(self, P, n, v):
        """a write THROUGH the child named n (it is created by the traversal when absent): its first leaf gets v"""
        name = self.cname[n]
        px = getattr(P, name.lower())
        if self.kind == "grp" and n != "Z":
            setattr(px, name.lower() + "_1", v)
        elif self.kind == "seg" and n == "B":
            px.cx_1 = v
        elif self.kind == "seg" and n == "C":
            px.xpn_1 = v
        else:
            px.value = v

    def value(self, n, v, asdt):
        """what is assigned: the text or - where the child is a field of a base datatype - an object of that datatype"""
        if asdt and v and (self.kind == "zseg" or (self.kind == "seg" and n == "A")):
            from .. import tables as T
            dt = "ST" if self.kind == "zseg" else next((r["dt"] for r in (T.seg_rows(self.version, "PID") or []) if r["name"] == "PID_8"), "ST")
            cls = T.lib(self.version).BASE_DATATYPES.get(dt)
            if cls is not None:
                return cls(v)
        return self.text(n, v)

    def free(self, n, v, l):
        from hl7apy.core import Field, Segment
        lvl = self.lvl if l == 1 else self.other
        if n == "Z" and self.kind == "grp":   # a child no group admits at either level: a field
            f = Field("PID_1", version=self.version, validation_level=lvl)
            f.value = v
            return f
        bad = self.poison and l != 1
        if self.kind in ("seg", "zseg"):
            f = (Field(self.cname[n], datatype="NM", version=self.version, validation_level=lvl) if bad
                 else Field(self.cname[n], version=self.version, validation_level=lvl))
            if v:
                f.value = v
            return f
        s = Segment(self.cname[n], version=self.version, validation_level=lvl)
        if v and bad:
            f = Field(self.cname[n] + "_1", datatype="FT", version=self.version, validation_level=lvl)
            f.value = v
            s.add(f)
        elif v:
            setattr(s, self.cname[n].lower() + "_1", v)
        return s

    def add_new(self, P, n):
        if self.kind in ("seg", "zseg"):
            return P.add_field(self.cname[n])
        return P.add_segment(self.cname[n])

    def absval(self, child):
        t = child.to_er7()
        if self.kind in ("seg", "zseg"):
            return t
        nm = child.name or ""
        if child.classname == "Field":
            return t
        if t.startswith(nm):
            t = t[len(nm):]
        return t[1:] if t.startswith("|") else t

    def absname(self, child):
        for k, v in self.cname.items():
            if child.name == v:
                return k
        return "?" + str(child.name)

    def encref_item(self):
        return None


# ------------------------------------------------------------------------------------------------
# executing operations and projecting
# ------------------------------------------------------------------------------------------------
class World(object):
    def __init__(self, conc):
        self.c = conc
        self.P = {1: conc.parent(), 2: conc.parent()}
        self.ids = {}        # python id(obj) -> abstract id
        self.objs = {}       # abstract id -> obj
        self.held = set()    # abstract ids explicitly held by the caller
        self.prev_used = set()   # ids allocated before the current operation (a new object never reuses one of them)

    # -- projection (public API only) --
    def listed(self):
        out = []
        for p in (1, 2):
            for ch in self.P[p].children:
                out.append(ch)
        return out

    def assign_ids(self):
        listed = self.listed()
        live = set(id(o) for o in listed) | set(id(self.objs[a]) for a in self.held)
        for pid_, a in list(self.ids.items()):
            if pid_ not in live:
                del self.ids[pid_]
                del self.objs[a]
        used = set(self.ids.values()) | set(self.prev_used)
        for o in listed:
            if id(o) not in self.ids:
                a = 1
                while a in used:
                    a += 1
                used.add(a)
                self.ids[id(o)] = a
                self.objs[a] = o
        self.held -= set(self.ids[id(o)] for o in listed)

    def state(self):
        now = self.listed()
        nowids = set(id(o) for o in now)
        prev = getattr(self, "_prev_listed", [])
        heldobjs = set(id(self.objs[a]) for a in self.held if a in self.objs)
        # objects that were listed a moment ago and are listed no more (deleted, replaced, popped): for the containment views
        self.gone = ([o for o in prev if id(o) not in nowids] + getattr(self, "gone", []))[:4]
        self._prev_listed = now
        self.assign_ids()
        self.prev_used = set(self.ids.values())
        kids = [[self.ids[id(o)] for o in self.P[p].children] for p in (1, 2)]
        objs = []
        for a in sorted(self.objs):
            o = self.objs[a]
            lv = 1 if (o.validation_level == self.c.lvl) else 0
            objs.append([a, self.c.absname(o), cps(self.c.absval(o)), lv])
        return {"kids": kids, "objs": objs, "held": sorted(self.held)}

    def views(self, deep=False):
        names = NAMES
        views, vlens, it, lens, par, lvl, enc = [], [], [], [], [], [], []
        for p in (1, 2):
            P = self.P[p]
            pv, pl = [], []
            for n in names:
                proxy = P.children.get(self.c.cname[n])
                pv.append([self.ids.get(id(o), 0) for o in (proxy if proxy is not None else [])])
                pl.append(len(proxy) if proxy is not None else 0)
            views.append(pv)
            vlens.append(pl)
            it.append([self.ids.get(id(o), 0) for o in iter(P.children)])
            lens.append(len(P.children))
            seen = set()
            for o in P.children:
                if id(o) in seen:
                    continue
                seen.add(id(o))
                par.append([self.ids.get(id(o), 0), 1 if o.parent is self.P[1] else 2 if o.parent is self.P[2] else 0])
                lvl.append([self.ids.get(id(o), 0), bool(o.validation_level == P.validation_level and o.version == P.version)])
            enc.append(cps(P.to_er7()))
        # containment: every listed child is `in` the list and `in` its by-name view; a child that is gone is in neither
        contains, stale = [], []
        for p in (1, 2):
            P = self.P[p]
            for o in P.children:
                try:
                    px = P.children.get(o.name) if o.name else None
                    contains.append([bool(o in P.children), bool(px is None or o in px)])
                except Exception:
                    contains.append([False, False])
            for g in getattr(self, "gone", []):
                if any(g is x for x in P.children):
                    continue
                try:
                    px = P.children.get(g.name) if g.name else None
                    stale.append([bool(g in P.children), bool(px is not None and g in px)])
                except Exception:
                    stale.append([False, False])
        obs = {"names": names, "views": views, "vlens": vlens, "iter": it, "lens": lens, "par": par, "lvl": lvl,
               "enc": enc, "contains": contains, "stale": stale}
        if deep:
            val = []
            for p in (1, 2):
                try:
                    r = self.P[p].validate(return_errors=True)
                    val.append("v:%s:%d:%d" % (r.is_valid, len(r.errors), len(r.warnings)))
                except Exception as ex:
                    val.append("exc:" + exc_name(ex))
            obs["valid"] = val
        return obs

    # -- operations --
    def do(self, op):
        c = self.c
        o = op["op"]
        P = self.P.get(op.get("p"))
        nm = c.cname.get(op.get("n"), None)
        attr = nm.lower() if nm else None
        if o == "SetName":
            setattr(P, attr, c.value(op["n"], op["v"], op.get("asdt")))
        elif o == "SetIdx":
            getattr(P, attr)[op["i"]] = c.value(op["n"], op["v"], op.get("asdt"))
        elif o == "SetObj":
            setattr(P, attr, self.objs[op["c"]])
        elif o == "SetAt":
            i = op["i"] - 1
            name = c.absname(P.children[i]) if i < len(P.children) else "A"
            P.children[i] = c.text(name, op["v"])
        elif o == "SetAtObj":
            P.children[op["i"] - 1] = self.objs[op["c"]]
        elif o == "SetDeep":
            c.deep_write(P, op["n"], op["v"])
        elif o == "AddNew":
            c.add_new(P, op["n"])
        elif o == "AddObj":
            P.add(self.objs[op["c"]])
        elif o == "Reparent":
            self.objs[op["c"]].parent = P
        elif o == "Insert":
            P.children.insert(op["i"] - 1, self.objs[op["c"]])
        elif o == "Remove":
            P.children.remove(self.objs[op["c"]])
            self.held.add(op["c"])
        elif o == "Pop":
            ch = P.children.pop(op["i"] - 1)
            self.held.add(self.ids[id(ch)])
        elif o == "DelAt":
            del P.children[op["i"] - 1]
        elif o == "DelName":
            delattr(P, attr)
        elif o == "DelIdx":
            del getattr(P, attr)[op["i"]]
        elif o == "CopyFrom":
            setattr(P, attr, getattr(self.P[op["q"]], attr))
        elif o == "Adopt":
            P.children = self.P[op["q"]].children
        elif o == "NewFree":
            f = c.free(op["n"], op["v"], op["l"])
            used = set(self.ids.values()) | set(self.prev_used)
            a = 1
            while a in used:
                a += 1
            self.ids[id(f)] = a
            self.objs[a] = f
            self.held.add(a)
        elif o == "Forget":
            self.held.discard(op["c"])
        elif o == "SetVal":
            self.objs[op["c"]].value = c.text(self.c.absname(self.objs[op["c"]]), op["v"])
        elif o == "Read":
            self.read(op)
        else:
            raise ValueError("unknown op " + o)

    def read(self, op):
        """C11: observations that must not change anything."""
        P = self.P[op["p"]]
        c = self.c
        attr = c.cname[op["n"]].lower()
        w = op["how"]
        if w == "get":
            getattr(P, attr)
        elif w == "len":
            len(getattr(P, attr))
        elif w == "iter":
            list(getattr(P, attr))
        elif w == "repr":
            repr(getattr(P, attr)), repr(P), str(P.children)
        elif w == "er7":
            P.to_er7(), P.to_er7(trailing_children=True)
        elif w == "validate":
            try:
                P.validate(return_errors=True)
            except Exception:
                pass
        elif w == "deep":
            x = getattr(P, attr)
            for step in c_deep_chain(c, op["n"]):
                x = getattr(x, step)
            x.to_er7() if hasattr(x, "to_er7") else None
        elif w == "deepvalue":
            x = getattr(P, attr)
            for step in c_deep_chain(c, op["n"]):
                x = getattr(x, step)
            x.value
        elif w == "long":
            getattr(P, c_long_name(c, op["n"]))
        elif w == "contains":
            (None in P.children), [ch in P.children for ch in list(P.children)]
        elif w == "index":
            pr = getattr(P, attr)
            if len(pr):
                pr[0], pr[len(pr) - 1]
        elif w == "childrenget":
            P.children.get(c.cname[op["n"]]), P.children.get(c.cname[op["n"]].lower())


def c_deep_chain(c, n):
    if c.kind == "zseg":
        return {"A": ["st"], "B": ["st"], "C": ["st"]}[n]
    if c.kind == "seg":
        return {"A": ["is"], "B": ["cx_4", "hd_2"], "C": ["xpn_1", "fn_1"]}[n]
    return {"A": ["in1_2", "ce_1"], "B": ["in3_2", "cx_4", "hd_2"], "C": ["rol_4", "xcn_2", "fn_1"]}[n]


def c_long_name(c, n):
    if c.kind == "zseg":
        return c.cname[n].lower()
    if c.kind == "seg":
        return {"A": "administrative_sex", "B": "patient_identifier_list", "C": "patient_name"}[n]
    return c.cname[n].lower()


READ_HOWS = ["get", "len", "iter", "repr", "er7", "validate", "deep", "deepvalue", "long", "contains", "index",
             "childrenget"]


def norm_op(op):
    d = dict(op)
    d.pop("asdt", None)      # (the value handed over as a datatype object: the same operation for the model)
    if "v" in d:
        d["v"] = cps(d["v"])
    return d


def run_sequence(conc, ops, record_from=0, deep=False):
    """Execute ops on a fresh world; return events (one per op from index record_from on)."""
    w = World(conc)
    events = []
    pre = w.state()
    preobs = w.views(deep)
    for k, op in enumerate(ops):
        outcome = "ok"
        try:
            w.do(op)
        except Exception as ex:
            outcome = exc_name(ex)
        post = w.state()
        if k >= record_from:
            obs = w.views(deep)
            ev = {"k": "tree", "op": norm_op(op), "outcome": outcome, "pre": pre, "post": post, "obs": obs,
                  "lay": conc.lay, "conc": conc.kind, "strict": conc.strict, "v": conc.version}
            ev["preobs"] = {"enc": preobs["enc"], "views": preobs["views"], "valid": preobs.get("valid", [])}
            preobs = obs
            events.append(ev)
        else:
            preobs = w.views(deep)
        pre = post
    return events


# ------------------------------------------------------------------------------------------------
# behaviours from TLC
# ------------------------------------------------------------------------------------------------
ACTION_OPS = {
    "SetName": ("SetName", ["p", "n", "v"]), "SetIdx": ("SetIdx", ["p", "n", "i", "v"]),
    "SetObjL": ("SetObj", ["p", "n", "c"]), "SetAtL": ("SetAt", ["p", "i", "v"]),
    "AddNewL": ("AddNew", ["p", "n"]), "AddObj": ("AddObj", ["p", "c"]), "Reparent": ("Reparent", ["p", "c"]),
    "InsertL": ("Insert", ["p", "i", "c"]), "RemoveL": ("Remove", ["p", "c"]), "PopL": ("Pop", ["p", "i"]), "DelAtL": ("DelAt", ["p", "i"]),
    "DelName": ("DelName", ["p", "n"]), "DelIdx": ("DelIdx", ["p", "n", "i"]),
    "CopyFromL": ("CopyFrom", ["p", "n", "q"]), "NewFreeL": ("NewFree", ["n", "v", "l"]), "ForgetL": ("Forget", ["c"]),
    "AdoptL": ("Adopt", ["p", "q"]),
}


def label_to_op(label):
    """dot edge label 'Do([op |-> "SetName", p |-> 1, ...])' -> op dict"""
    from .. import tlaval
    rec = tlaval.parse(label[label.index("(") + 1:label.rindex(")")])
    op = dict(rec)
    if "v" in op:
        op["v"] = "".join(chr(x) for x in op["v"])
    return op


def mc_cfg(names, objs, vals, maxkids, maxheld, strict, props=True):
    t = ("CONSTANTS\n Parents = {1, 2}\n Obj = {%s}\n Names = {%s}\n MaxRep <- MaxRepQ\n Strict = %s\n Vals <- Vals%d\n"
         " MaxKids = %d\n MaxHeld = %d\nSPECIFICATION Spec\nVIEW View\nCHECK_DEADLOCK FALSE\n" %
         (", ".join(str(i + 1) for i in range(objs)), ", ".join('"%s"' % n for n in names),
          "TRUE" if strict else "FALSE", len(vals), maxkids, maxheld))
    t += "INVARIANT C10Consistent\nINVARIANT TypeOK\n"
    if props:
        t += "PROPERTY C12Atomic\nPROPERTY C09OrderKept\nPROPERTY C09Locality\n"
    return t


def tlc_graph(ctx, names, objs, vals, maxkids, maxheld, strict):
    cfg = os.path.join(tlc.SPEC_DIR, "_gen_ETMC_%s_%d.cfg" % (ctx.pid, os.getpid()))
    with open(cfg, "w") as f:
        f.write(mc_cfg(names, objs, vals, maxkids, maxheld, strict))
    try:
        r, nodes, edges = tlc.dump_graph("ElementTreeMC", os.path.basename(cfg), workers=8, timeout=1500)
    finally:
        os.unlink(cfg)
    if r.violated or not r.completed:
        ctx.machinery_failure("ElementTreeMC: the reference violates its own law %r\n%s" % (r.violated, r.raw[-1500:]))
    ctx.add_mc(r, "ElementTreeMC graph names=%s obj=%d vals=%s kids<=%d held<=%d strict=%s" %
               (names, objs, vals, maxkids, maxheld, strict))
    return nodes, edges


def paths_from_graph(nodes, edges, rnd, extra_paths=1):
    """shortest path (as op list) to every node, plus `extra_paths` random walks ending in it when found."""
    adj = collections.defaultdict(list)
    for (u, lab, v) in edges:
        if u != v and "(" in lab:
            adj[u].append((lab, v))
    init = None
    for k, s in nodes.items():
        st = s.get("st")
        if st and all(len(x) == 0 for x in st["kids"]) and st["held"] in (("set", []),):
            init = k
            break
    if init is None:
        raise RuntimeError("initial state not found in graph")
    path = {init: []}
    q = collections.deque([init])
    while q:
        u = q.popleft()
        for lab, v in adj[u]:
            if v not in path:
                path[v] = path[u] + [lab]
                q.append(v)
    alt = collections.defaultdict(list)
    deep = {}
    for (u, lab, v) in edges:
        if u != v and '"SetDeep"' in lab and u in path and v not in deep and path[u] + [lab] != path.get(v):
            deep[v] = path[u] + [lab]
    for _ in range(extra_paths * 2000):
        u = init
        labs = []
        for _step in range(rnd.randint(3, 14)):
            if not adj[u]:
                break
            lab, u = rnd.choice(adj[u])
            labs.append(lab)
            if len(alt[u]) < extra_paths and labs != path.get(u):
                alt[u].append(list(labs))
    for v, pl in deep.items():
        alt[v].insert(0, pl)
    return init, path, alt


def alphabet(names, objs, vals, maxkids):
    ops = []
    for p in (1, 2):
        for n in names:
            ops.append({"op": "AddNew", "p": p, "n": n})
            ops.append({"op": "DelName", "p": p, "n": n})
            ops.append({"op": "CopyFrom", "p": p, "n": n, "q": 3 - p})
            for v in vals:
                ops.append({"op": "SetName", "p": p, "n": n, "v": v})
            ops.append({"op": "SetName", "p": p, "n": n, "v": vals[0], "asdt": True})
            ops.append({"op": "SetDeep", "p": p, "n": n, "v": vals[-1]})
            for i in range(0, maxkids + 1):
                ops.append({"op": "DelIdx", "p": p, "n": n, "i": i})
                ops.append({"op": "SetIdx", "p": p, "n": n, "i": i, "v": vals[-1]})
                ops.append({"op": "SetIdx", "p": p, "n": n, "i": i, "v": vals[0], "asdt": True})
            for c in range(1, objs + 1):
                ops.append({"op": "SetObj", "p": p, "n": n, "c": c})
        ops.append({"op": "Adopt", "p": p, "q": 3 - p})
        ops.append({"op": "Adopt", "p": p, "q": p})
        for i in range(1, maxkids + 2):
            ops.append({"op": "Pop", "p": p, "i": i})
            ops.append({"op": "DelAt", "p": p, "i": i})
            ops.append({"op": "SetAt", "p": p, "i": i, "v": vals[-1]})
            for c in range(1, objs + 1):
                ops.append({"op": "SetAtObj", "p": p, "i": i, "c": c})
        for c in range(1, objs + 1):
            ops.append({"op": "AddObj", "p": p, "c": c})
            ops.append({"op": "Reparent", "p": p, "c": c})
            ops.append({"op": "Remove", "p": p, "c": c})
            for i in (1, 2):
                ops.append({"op": "Insert", "p": p, "i": i, "c": c})
    return ops


def read_ops(names):
    return [{"op": "Read", "p": p, "n": n, "how": h} for p in (1, 2) for n in names for h in READ_HOWS]


def applicable(op, st):
    """An operation naming an object needs that object to exist in the planned state."""
    if "c" in op:
        alloc = set(st["held"][1]) if isinstance(st["held"], tuple) else set()
        for k in st["kids"]:
            alloc |= set(k)
        return op["c"] in alloc
    return True


def _replay_chunk(args):
    kind, version, strict, jobs, deep, only = args
    conc = Concrete(kind, version, strict)
    out = {}
    steps = 0
    errors = []
    for (prefix, op, first) in jobs:
        try:
            evs = run_sequence(conc, prefix + [op], record_from=first, deep=deep)
        except Exception as ex:   # harness bug, not a verdict
            errors.append({"harness_error": repr(ex), "ops": prefix + [op]})
            continue
        for e in evs:
            steps += 1
            if only == "rejected" and e["outcome"] == "ok":
                continue
            if only == "accepted" and e["outcome"] != "ok":
                continue
            out.setdefault(event_key(e), e)
    return out, steps, errors


def event_key(e):
    import hashlib
    return hashlib.blake2b(json.dumps([e["op"], e["outcome"], e["pre"], e["post"], e["obs"], e.get("preobs"), e["conc"], e["strict"],
                                       e["v"]], sort_keys=True).encode(), digest_size=16).digest()


def explore(ctx, focus, kinds, versions, stricts, size):
    """Run graph replay + walks; returns list of (event, clause) failures for clauses in `focus`."""
    rnd = random.Random(ctx.seed * 7919 + hash(ctx.pid) % 1000)
    all_events = {}
    total_steps = 0
    for strict in stricts:
        names, objs, vals, maxkids, maxheld = size["names"], size["objs"], [V1, V2][:size["nvals"]], size["kids"], size["held"]
        nodes, edges = tlc_graph(ctx, names, objs, vals, maxkids, maxheld, strict)
        init, path, alt = paths_from_graph(nodes, edges, rnd, extra_paths=size.get("extra_paths", 1))
        ops = alphabet(names, objs, [V1, V2], maxkids)
        rops = read_ops(names) if "read" in size.get("with", ()) else []
        jobs = []
        keep = size.get("state_fraction", 1.0)
        for u in path:
            if keep < 1.0 and rnd.random() > keep and u != init:
                continue
            st = nodes[u]["st"]
            prefixes = [path[u]] + alt.get(u, [])
            for pi, pl in enumerate(prefixes):
                pre_ops = [label_to_op(l) for l in pl]
                for op in ops + rops:
                    if not applicable(op, st):
                        continue
                    if pi > 0 and rnd.random() > 0.25 and not (pl and '"SetDeep"' in pl[-1]):
                        continue
                    # the prefix is recorded too, once (first path only, first op only)
                    jobs.append((pre_ops, op, len(pre_ops)))
                if pre_ops:
                    jobs.append((pre_ops[:-1], pre_ops[-1], 0))
        # deeper histories: simulated walks of a larger instance of the same model (more objects, children, names)
        wk = size.get("walks")
        if wk:
            cfg = os.path.join(tlc.SPEC_DIR, "_gen_ETSIM_%s_%d.cfg" % (ctx.pid, os.getpid()))
            with open(cfg, "w") as f:
                f.write(mc_cfg(wk["names"], wk["objs"], [V1, V2], wk["kids"], wk["held"], strict, props=False).replace("VIEW View\n", ""))
            try:
                rs, behaviours = tlc.simulate("ElementTreeMC", os.path.basename(cfg), num=wk["num"], depth=wk["depth"],
                                              seed=ctx.seed * 2 + (1 if strict else 0) + 1, timeout=900)
            finally:
                os.unlink(cfg)
            nw = 0
            for b in behaviours:
                seq = []
                for act, stt in b:
                    op = stt["last"][0]
                    if op.get("op") and op["op"] != "Init":
                        op = dict(op)
                        if "v" in op:
                            op["v"] = "".join(chr(x) for x in op["v"])
                        seq.append(op)
                if len(seq) >= 2:
                    jobs.append((seq[:-1], seq[-1], 0))
                    nw += 1
            ctx.extra.setdefault("simulated_walks", 0)
            ctx.extra["simulated_walks"] += nw
        rnd.shuffle(jobs)
        for kind in kinds:
            if kind == "zseg" and strict:
                continue      # a Z segment has no cardinalities to enforce: the strict reference does not apply
            # (a dict gives each concretisation its own versions: the quick tier uses another version than the library's
            #  default for two of the three, since a slip may show only where the version is not the default one)
            for version in (versions.get(kind, ["2.5"]) if isinstance(versions, dict) else versions):
                chunks = [(kind, version, strict, jobs[k::32], bool(rops), size.get("only", "all")) for k in range(32)]
                for part, steps, errors in pmap(_replay_chunk, chunks):
                    for e in errors:
                        ctx.machinery_failure("replay harness error %s on %s" % (e["harness_error"], e["ops"][-3:]))
                    total_steps += steps
                    for k, e in part.items():
                        all_events.setdefault(k, e)
        del nodes, edges
    events = list(all_events.values())
    for i, e in enumerate(events):
        e["id"] = i + 1
    ctx.evaluations += total_steps
    ctx.extra["steps_executed_on_impl"] = total_steps
    ctx.extra["distinct_events_judged"] = len(events)
    failures = []
    for strict in stricts:
        part = [e for e in events if e["strict"] == strict]
        failed, _ = judge(ctx, "ElementTreeTrace", "ElementTreeTrace_%s.cfg" % ("S" if strict else "T"), part)
        byid = {e["id"]: e for e in part}
        for i, clause in failed.items():
            for part_ in str(clause).split("+"):
                failures.append((byid[i], part_))
    for e in events:
        ctx.nontrivial((e["op"]["op"], e["outcome"] == "ok", e["conc"], e["strict"],
                        json.dumps(e["pre"]["kids"]), json.dumps([o[1] for o in e["pre"]["objs"]])))
    for e in events[:4]:
        ctx.sample({"conc": e["conc"], "strict": e["strict"], "op": e["op"], "outcome": e["outcome"],
                    "pre_kids": e["pre"]["kids"], "post_kids": e["post"]["kids"],
                    "enc": ["".join(chr(c) for c in x) for x in e["obs"]["enc"]]})
    return failures


def signature(e, clause):
    op = e["op"]
    pre = e["pre"]
    p = op.get("p")
    nm = {o[0]: o[1] for o in pre["objs"]}
    sig = {"clause": clause, "op": op["op"], "conc": e["conc"], "strict": e["strict"], "outcome": e["outcome"]}
    # the situation the operation met, in the vocabulary of the specification
    if p and "n" in op:
        reps = [o for o in pre["kids"][p - 1] if nm.get(o) == op["n"]]
        sig["reps_before"] = min(len(reps), 3)
        if reps:
            idx = op.get("i", 0) if op["op"] in ("SetIdx", "DelIdx") else 0
            if idx < len(reps):
                pos = pre["kids"][p - 1].index(reps[idx])
                sig["addressed_is_last"] = pos == len(pre["kids"][p - 1]) - 1
    if "c" in op:
        c = op["c"]
        sig["c_where"] = ("held" if c in pre["held"] else "same_parent" if p and c in pre["kids"][p - 1] else
                          "other_parent" if any(c in k for k in pre["kids"]) else "unknown")
        row = [o for o in pre["objs"] if o[0] == c]
        if row:
            sig["c_name_ok"] = row[0][1] in NAMES
            sig["c_level_same"] = row[0][3] == 1
    if op["op"] in ("SetAt", "SetAtObj", "Pop", "DelAt", "Insert") and p:
        sig["i_in_range"] = op["i"] <= len(pre["kids"][p - 1])
    return sig


def run_property(ctx, focus, size_quick, size_thorough, kinds=("seg", "grp", "zseg")):
    size = size_quick if ctx.tier == "quick" else size_thorough
    versions = ({"seg": ["2.5"], "grp": ["2.6"], "zseg": ["2.3"]} if ctx.tier == "quick"
                else {"seg": ["2.5", "2.3"], "grp": ["2.6", "2.4"], "zseg": ["2.3", "2.8"]})
    failures = explore(ctx, focus, kinds, versions, [False, True], size)
    for e, clause in failures:
        if clause in focus:
            ctx.fail(signature(e, clause), {"event": e, "clause": clause})
        else:
            ctx.extra.setdefault("other_property_clauses_seen", {}).setdefault(clause, 0)
            ctx.extra["other_property_clauses_seen"][clause] += 1
    ctx.rule = ("a seeded share of the reachable states of the bounded reference model (TLC graph dump; quick: 2-6 %, thorough: "
                "6 % on two versions per concretisation) x every operation of the alphabet, "
                "each reached by the shortest path and by random alternative paths, executed on real elements "
                "(Segment PID with fields, Group ADT_A01_INSURANCE with segments; TOLERANT and STRICT); identical "
                "(pre, op, outcome, post, views) observations are judged once; non-trivial = distinct (operation, "
                "outcome class, concretisation, level, pre-state shape)")
    ctx.exhaustive = False
    ctx.assumptions += ["projection through the public API only: children, by-name lookup, parent, to_er7, validate",
                        "object identities are compared modulo the allocation rule 'smallest free id'"]
