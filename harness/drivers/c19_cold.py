"""C19 — first use.  One observation per FRESH interpreter (nothing of hl7apy imported yet, every per-version library,
cache and lazily built structure cold): run as  python -m harness.drivers.c19_cold '<json case>'  and print the events.

  {"mode": "sched", "jobs": [[dt, value, version, level], ...], "schedule": [thread, ...]}
      the threads are forced through the yield points of datatype_factory along the schedule (Threads.tla's steps);
  {"mode": "race", "a": <call>, "b": <call>, "delay_ms": d}
      two threads make their first calls at the same time, the second d ms after the first, no hooks involved;
      <call> = ["factory", dt, value, version, level] | ["segment", version] | ["parse", version] | ["build", version]

In both modes the same calls are made again afterwards, one after the other: that is the sequential reference."""
import json
import os
import sys
import threading
import time

sys.path.insert(0, os.environ.get("VERIF_REPO", "/repo"))


class Scheduler(object):
    """(the scheduler of c19.py, repeated here so that this module imports nothing that touches hl7apy)"""
    def __init__(self, n):
        self.go = [threading.Event() for _ in range(n)]
        self.arrived = threading.Event()
        self.where = [None] * n
        self.done = [False] * n
        self.tls = threading.local()

    def point(self, name):
        i = getattr(self.tls, "idx", None)
        if i is None:
            return
        self.where[i] = name
        self.arrived.set()
        self.go[i].wait()
        self.go[i].clear()

    def run_thread(self, i, fn, results):
        self.tls.idx = i
        self.point("start")
        try:
            results[i] = fn()
        except Exception as ex:
            results[i] = "exc:" + exc_name(ex)
        self.where[i] = "return"
        self.done[i] = True
        self.tls.idx = None
        self.arrived.set()

    def step(self, i):
        self.arrived.clear()
        self.go[i].set()
        if not self.arrived.wait(20):
            raise RuntimeError("thread %d did not reach a yield point" % i)
        return self.where[i]


def exc_name(ex):
    return type(ex).__name__


def digest(x):
    if isinstance(x, str):
        return x
    try:
        return "%s:%s" % (type(x).__name__, x.to_er7())
    except Exception as ex:
        return "%s:?%s" % (type(x).__name__, exc_name(ex))


def make_call(c):
    kind = c[0]
    if kind == "factory":
        def fn():
            from hl7apy.factories import datatype_factory
            return digest(datatype_factory(c[1], c[2], c[3], c[4]))
    elif kind == "segment":
        def fn():
            from hl7apy.parser import parse_segment
            return parse_segment("PID|1||5^^^Z~6||A^B|||F", version=c[1]).to_er7()
    elif kind == "parse":
        def fn():
            from hl7apy.parser import parse_message
            v = c[1]
            typ = "ADT^A01" if v < "2.3.1" else "ADT^A01^ADT_A01"
            t = "MSH|^~\\&|A|B|C|D|20200101||%s|ID|P|%s\rEVN||20200101\rPID|1||12^^^X||DOE^JOHN\rPV1|1|I" % (typ, v)
            return parse_message(t).to_er7()
    else:
        def fn():
            from hl7apy.core import Message
            m = Message("ADT_A01", version=c[1])
            m.msh.msh_7 = "20200101"
            m.pid.pid_5 = "DOE^JANE"
            return m.to_er7()

    def safe():
        try:
            return fn()
        except Exception as ex:
            return "exc:" + exc_name(ex)
    return safe


def run_race(case):
    calls = [make_call(case["a"]), make_call(case["b"])]
    res = [None, None]
    start = threading.Event()

    def th(i, delay):
        start.wait()
        if delay:
            time.sleep(delay)
        res[i] = calls[i]()
    ts = [threading.Thread(target=th, args=(0, 0)), threading.Thread(target=th, args=(1, case["delay_ms"] / 1000.0))]
    for t in ts:
        t.start()
    start.set()
    for t in ts:
        t.join(60)
    alone = [c() for c in calls]
    sched = "race:%dms" % case["delay_ms"]
    return [{"k": "job", "mode": "cold-race", "thread": i, "job": [str(x) for x in case["ab"[i]]], "result": str(res[i]),
             "alone": alone[i], "sched": sched} for i in (0, 1)]


def run_sched(case):
    import hl7apy.factories as F
    jobs = [tuple(j) for j in case["jobs"]]
    n = len(jobs)
    sch = Scheduler(n)
    results = [None] * n
    F._verif_point = sch.point
    try:
        ths = []
        for i, j in enumerate(jobs):
            sch.arrived.clear()
            t = threading.Thread(target=sch.run_thread, args=(i, (lambda jj=j: F.datatype_factory(*jj)), results))
            t.daemon = True
            t.start()
            sch.arrived.wait(10)
            ths.append(t)
        for i in case["schedule"]:
            if not sch.done[i]:
                sch.step(i)
        for i in range(n):
            while not sch.done[i]:
                sch.step(i)
        for t in ths:
            t.join(10)
    finally:
        F._verif_point = None
    alone = []
    for j in jobs:
        try:
            alone.append(digest(F.datatype_factory(*j)))
        except Exception as ex:
            alone.append("exc:" + exc_name(ex))
    sched = "cold:" + "".join(str(x) for x in case["schedule"])
    return [{"k": "job", "mode": "cold-sched", "thread": i, "job": [str(x) for x in jobs[i]],
             "result": digest(results[i]) if results[i] is not None else "none", "alone": alone[i], "sched": sched}
            for i in range(n)]


def run_defaults(case):
    """the process-wide defaults are changed in the main thread; calls that rely on them are made in other threads and,
    afterwards, in the main thread itself: the defaults are the process's, not a thread's"""
    import hl7apy
    hl7apy.set_default_version(case["version"])
    hl7apy.set_default_validation_level(case["level"])

    def calls():
        from hl7apy.core import Message, Segment
        from hl7apy.factories import datatype_factory
        from hl7apy.parser import parse_segment
        out = []
        for fn in (lambda: Message("ADT_A01").msh.msh_12.to_er7(), lambda: Segment("PID").version,
                   lambda: digest(datatype_factory("NM", "abc")), lambda: digest(datatype_factory("DT", "20200101")),
                   lambda: parse_segment("PID|1||5").validation_level, lambda: hl7apy.get_default_version(),
                   lambda: hl7apy.get_default_validation_level()):
            try:
                out.append(str(fn()))
            except Exception as ex:
                out.append("exc:" + exc_name(ex))
        return out
    res = [None, None]

    def th(i):
        res[i] = calls()
    ts = [threading.Thread(target=th, args=(i,)) for i in (0, 1)]
    for t in ts:
        t.start()
    for t in ts:
        t.join(60)
    alone = calls()
    return [{"k": "job", "mode": "cold-defaults", "thread": i, "job": ["defaults", case["version"], str(case["level"])],
             "result": "|".join(res[i] or ["none"]), "alone": "|".join(alone), "sched": "defaults:%s:%s" % (case["version"], case["level"])}
            for i in (0, 1)]


if __name__ == "__main__":
    case = json.loads(sys.argv[1])
    try:
        ev = run_race(case) if case["mode"] == "race" else run_defaults(case) if case["mode"] == "defaults" else run_sched(case)
    except Exception as ex:
        ev = [{"harness_error": repr(ex)}]
    sys.stdout.write("\nCOLD-EVENTS " + json.dumps(ev) + "\n")
