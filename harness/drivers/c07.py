"""C07 — a message's encoding characters govern its entire encoding.

M: Er7MC — closure law of the reference grammar (every separator of Enc(d, ec) is ec's, MSH-1/2 spell ec) over the
   bounded document space with two delimiter sets.
R+T: for ordered choices of 5 (v >= 2.7: also 6) distinct punctuation characters x every version, a message with
   repetitions, components and subcomponents is BUILT through the API with Message(..., encoding_chars=ec); the
   harness hands TLC the abstract tree it built; Er7Trace!DelimsVerdict demands out = EncMsg(tree, ec), MSH-1/2,
   truncation iff supplied, encoding_chars read back on every element, parse(out) recovering the set and an
   identically encoding tree, to_mllp framing.  Defective sets must raise InvalidEncodingChars."""
import itertools
import random

from .. import tables as T
from ..common import cps, pmap, judge, import_hl7apy, exc_name
from . import er7mc

PUNCT = "|^&~\\#!@$%*+=:;/?<>[]{}()-,'`\"_"     # no '.': it occurs in the version id every MSH-12 carries
# ('_' is a word character for regular expressions; with it in the set the structure id ADT_A01 is left out of MSH-9)
KEYS = ["FIELD", "COMPONENT", "SUBCOMPONENT", "REPETITION", "ESCAPE", "TRUNCATION"]


def pick_fields(v):
    """in PID: a repeatable complex field with a complex component (subcomponents), and a plain field"""
    rows = T.seg_rows(v, "PID") or []
    rep = None
    for r in rows:
        if r["kind"] == "complex" and r["max"] != 1:
            comps = T.dt_rows(v, r["dt"]) or []
            cx = [c for c in comps if c["kind"] == "complex" and len(c["subs"]) >= 2
                  and all(x["dt"] in ("ST", "ID", "IS") for x in c["subs"][:2])]
            bs = [c for c in comps if c["kind"] == "base" and c["dt"] in ("ST", "ID", "IS")]
            if cx and bs:
                rep = (r, bs[0], cx[0])
                break
    plain = [r for r in rows if r["kind"] == "base" and r["dt"] in ("ST", "IS", "ID", "SI")]
    return rep, (plain[0] if plain else None)


def build(v, ecs, lvl, variant=0):
    """-> event.  variant 0: every leaf set by name; variant 1: components and whole fields assigned as ER7 text in the
    message's own delimiters, plus (TOLERANT) a segment the structure does not list, with components and repetitions"""
    import_hl7apy()
    from hl7apy.core import Message
    from hl7apy.parser import parse_message
    six = len(ecs) == 6
    ec = {k: c for k, c in zip(KEYS, ecs)}
    ec["SEGMENT"] = "\r"
    ec["GROUP"] = "\r"
    eclist = [ord(ecs[0]), ord(ecs[1]), ord(ecs[2]), ord(ecs[3]), ord(ecs[4]), ord(ecs[5]) if six else 0]
    e = {"k": "delims", "v": v, "ec": eclist, "doc": [], "out": [], "mllp": [], "ecs": [], "pec": [], "reenc": [], "six": six, "lvl": lvl,
         "variant": variant}
    try:
        m = Message("ADT_A01", version=v, validation_level=lvl, encoding_chars=dict(ec))
        m.msh.msh_7 = "20200101"
        m.msh.msh_10 = "X1"
        parts9 = ["ADT", "A01"] + (["ADT_A01"] if v >= "2.3.1" and "_" not in ecs else [])
        if variant == 2:
            parts9 = ["ADT", "Z99"]       # an event no structure is known for: the parser has no structure to go by
        m.msh.msh_9 = ecs[1].join(parts9)
        msh_fields = [[[[cps(ecs[0])]]], [[[cps(ecs[1] + ecs[3] + ecs[4] + ecs[2] + (ecs[5] if six else ""))]]],
                      [[[[]]]], [[[[]]]], [[[[]]]], [[[[]]]], [[[cps("20200101")]]], [[[[]]]], [[[cps(x)] for x in parts9]], [[[cps("X1")]]], [[[[]]]],
                      [[[cps(v)]]]]
        r12 = [r_ for r_ in (T.seg_rows(v, "MSH") or []) if r_["name"] == "MSH_12"]
        if variant >= 1 and r12 and r12[0]["kind"] == "complex":
            # MSH-12 with a second component (version id and internationalisation code), in the message's own delimiters
            m.msh.msh_12 = v + ecs[1] + "ITA"
            msh_fields[11] = [[[cps(v)], [cps("ITA")]]]
        doc = [{"name": cps("MSH"), "fields": msh_fields}]
        rep, plain = pick_fields(v)
        pid = m.add_segment("PID")
        n = max([rep[0]["i"] if rep else 0, plain["i"] if plain else 0])
        fields = [[[[[]]]] for _ in range(n)]
        if plain:
            setattr(pid, plain["name"].lower(), "7")
            fields[plain["i"] - 1] = [[[cps("7")]]]
        if rep:
            r, bc, cc = rep
            reps = []
            for k, tag in enumerate(("A", "B")):
                ncomp = max(bc["j"], cc["j"])
                k0, k1 = cc["subs"][0]["k"], cc["subs"][1]["k"]
                subtext = ecs[2].join((tag + "2") if i == k0 else (tag + "3") if i == k1 else "" for i in range(1, max(k0, k1) + 1))
                if variant == 0:
                    f = pid.add_field(r["name"])
                    setattr(f, bc["name"].lower(), tag + "1")
                    comp = getattr(f, cc["name"].lower())
                    setattr(comp, cc["subs"][0]["name"].lower(), tag + "2")
                    setattr(comp, cc["subs"][1]["name"].lower(), tag + "3")
                elif k == 0:
                    # the named component gets its subcomponents as one text
                    f = pid.add_field(r["name"])
                    setattr(f, bc["name"].lower(), tag + "1")
                    setattr(f, cc["name"].lower(), subtext)
                else:
                    # the whole repetition as one text
                    f = pid.add_field(r["name"])
                    f.value = ecs[1].join((tag + "1") if j == bc["j"] else subtext if j == cc["j"] else "" for j in range(1, ncomp + 1))
                comps = [[[]] for _ in range(ncomp)]
                comps[bc["j"] - 1] = [cps(tag + "1")]
                subs = [[] for _ in range(max(cc["subs"][0]["k"], cc["subs"][1]["k"]))]
                subs[cc["subs"][0]["k"] - 1] = cps(tag + "2")
                subs[cc["subs"][1]["k"] - 1] = cps(tag + "3")
                comps[cc["j"] - 1] = subs
                reps.append(comps)
            fields[r["i"] - 1] = reps
        doc.append({"name": cps("PID"), "fields": fields})
        nk = [r for r in (T.seg_rows(v, "NK1") or []) if r["name"] == "NK1_2" and r["dt"] == "XPN"]
        xp = T.dt_rows(v, "XPN") or []
        if variant == 1 and nk and xp and xp[0]["kind"] == "complex" and len(xp[0]["subs"]) >= 2:
            # a segment and a field that do not exist yet, reached by traversal: the text is read with the message's set
            m.nk1.nk1_2.xpn_1 = "k" + ecs[2] + "l"
            doc.append({"name": cps("NK1"), "fields": [[[[[]]]], [[[cps("k"), cps("l")]]]]})
        if variant == 1 and lvl == 2:
            z = m.add_segment("ZXT")
            z.zxt_1 = "a" + ecs[1] + "b" + ecs[2] + "c"
            z.add_field("ZXT_1").value = "d"
            z.zxt_2 = "e" + ecs[1] + "f"
            f1 = [[[cps("a")], [cps("b"), cps("c")]], [[cps("d")]]]       # two repetitions; the first: a, then b with subcomponent c
            f2 = [[[cps("e")], [cps("f")]]]
            doc.append({"name": cps("ZXT"), "fields": [f1, f2]})
        e["doc"] = doc
        out = m.to_er7()
        e["out"] = cps(out)
        e["mllp"] = cps(m.to_mllp())

        def eclist_of(d):
            return [ord(d["FIELD"]), ord(d["COMPONENT"]), ord(d["SUBCOMPONENT"]), ord(d["REPETITION"]), ord(d["ESCAPE"]),
                    ord(d["TRUNCATION"]) if "TRUNCATION" in d else 0]
        ecs_seen = [eclist_of(m.encoding_chars)]

        def walk(el):
            for ch in el.children:
                ecs_seen.append(eclist_of(ch.encoding_chars))
                if ch.classname != "SubComponent":
                    walk(ch)
        walk(m)
        e["ecs"] = ecs_seen
        p = parse_message(out, validation_level=lvl)
        e["pec"] = eclist_of(p.encoding_chars)
        e["reenc"] = cps(p.to_er7())
        e["outcome"] = "ok"
    except Exception as ex:
        e["outcome"] = exc_name(ex)
    return e


def _chunk(items):
    return [build(*it) for it in items]


def bad_sets():
    import_hl7apy()
    from hl7apy.core import Message
    import hl7apy
    good = {"FIELD": "|", "COMPONENT": "^", "SUBCOMPONENT": "&", "REPETITION": "~", "ESCAPE": "\\"}
    cases = []
    for k in list(good):
        d = dict(good)
        del d[k]
        cases.append(("missing:" + k, d))
    ks = list(good) + ["TRUNCATION"]
    for a, b in itertools.combinations(ks, 2):
        d = dict(good)
        d["TRUNCATION"] = "#"
        d[b] = d[a]
        cases.append(("duplicate:%s=%s" % (a, b), d))
    cases.append(("not_a_mapping", "|^~\\&"))
    cases.append(("not_a_mapping_list", ["|", "^", "&", "~", "\\"]))
    out = []
    for desc, d in cases:
        for how in ("Message", "check", "set_default"):
            e = {"k": "baddelims", "desc": desc, "how": how, "ec": [0, 0, 0, 0, 0, 0], "v": "2.7"}
            try:
                if how == "Message":
                    Message("ADT_A01", version="2.7", encoding_chars=d)
                elif how == "check":
                    hl7apy.check_encoding_chars(d)
                else:
                    old = hl7apy._DEFAULT_ENCODING_CHARS
                    try:
                        hl7apy.set_default_encoding_chars(dict(d) if isinstance(d, dict) else d)
                    finally:
                        hl7apy._DEFAULT_ENCODING_CHARS = old
                e["outcome"] = "accepted"
            except Exception as ex:
                e["outcome"] = exc_name(ex)
            out.append(e)
    return out


def signature(e, clause):
    sig = {"clause": clause, "k": e["k"], "v": e.get("v"), "outcome": e["outcome"]}
    if e["k"] == "delims":
        sig["variant"] = e.get("variant", 0)
        sig["six"] = e["six"]
        sig["lvl"] = e["lvl"]
    else:
        sig["desc"] = e["desc"]
        sig["how"] = e["how"]
    return sig


def run(ctx):
    quick = ctx.tier == "quick"
    er7mc.model_check(ctx)
    rnd = random.Random(ctx.seed + 7)
    sets = ["|^&~\\", "^|~&\\", "&~\\|^", "~\\|^&", "\\|^&~"]            # the default and its cyclic shifts
    allp = [c for c in PUNCT]
    want = 150 if quick else 3000
    while len(sets) < want:
        sets.append("".join(rnd.sample(allp, 5)))
    if not quick:
        eight = "|^&~\\#!@"
        sets.extend("".join(p) for p in itertools.permutations(eight, 5))
    items = []
    for v in T.versions():
        chosen = sets if not quick else sets[:5] + rnd.sample(sets[5:], 70)
        if not quick:
            chosen = rnd.sample(sets, 900)
        for s in chosen:
            for lvl in ((2,) if quick and rnd.random() < 0.6 else (2, 1)):
                var = len(items) % 2
                items.append((v, s, lvl, var))
                if lvl == 2 and len(items) % 5 == 0:
                    items.append((v, s, lvl, 2))
                if v >= "2.7":
                    extra = rnd.choice([c for c in allp if c not in s])
                    items.append((v, s + extra, lvl, 1 - var))
    rnd.shuffle(items)
    events = []
    for part in pmap(_chunk, [items[k::32] for k in range(32)]):
        events.extend(part)
    events.extend(bad_sets())
    for i, e in enumerate(events):
        e["id"] = i + 1
    ctx.evaluations += len(events)
    send = [{k: e[k] for k in e if k not in ("six", "lvl", "desc", "how", "v", "variant")} for e in events]
    failed, _ = judge(ctx, "Er7Trace", "Er7Trace.cfg", send)
    byid = {e["id"]: e for e in events}
    for e in events:
        ctx.nontrivial((e["k"], e.get("v"), tuple(e["ec"]), e.get("lvl"), e.get("desc"), e.get("how")))
    for i, clause in sorted(failed.items()):
        e = byid[i]
        ctx.fail(signature(e, clause), {"clause": clause, "event": {k: e[k] for k in e if k not in ("doc",)},
                                        "out": "".join(chr(c) for c in e.get("out", []))})
    for e in events[:3]:
        ctx.sample({"v": e.get("v"), "ec": "".join(chr(c) for c in e["ec"] if c), "out": "".join(chr(c) for c in e.get("out", []))[:160]})
    ctx.rule = ("ordered choices of 5 distinct characters out of %d punctuation marks (quick: the default, its 4 cyclic shifts and "
                "18 random sets per version; thorough: 900 per version incl. all 6720 arrangements of 8 marks overall), for "
                "versions >= 2.7 also with a sixth (truncation) character, x 12 versions x levels, each on a built ADT_A01 with a "
                "repeated field, components and subcomponents - set leaf by leaf, or assigned as ER7 text (a component with its subcomponents, a "
                "whole repetition) together with a segment the structure does not list; 17 defective sets x 3 entry points" % len(PUNCT))
    ctx.assumptions += ["leaf values are alphanumeric, so no escaping interferes with the delimiter law (escaping is C06)"]
