"""Binding M for the codec properties: the bounded Er7 document space and the laws of the reference grammar."""
import os
from .. import tlc

INVS = ["RoundTrip", "TrimCanonical", "CanonicalFixpoint", "TrimKeepsLeaves", "PositionLaw", "Closure"]


def cfg_text(depth, msh=True, fields=2):
    return ("CONSTANTS\n MaxFields = %d\n MaxReps = 2\n MaxComps = 2\n MaxSubs = 2\n MaxLeaves = 3\n WithMSH = %s\n"
            " MaxDepth = %d\nSPECIFICATION Spec\nCHECK_DEADLOCK FALSE\nCONSTRAINT Bound\n" %
            (fields, "TRUE" if msh else "FALSE", depth)) + "".join("INVARIANT %s\n" % i for i in INVS)


def model_check(ctx):
    depth = 6 if ctx.tier == "quick" else 8
    cfg = os.path.join(tlc.SPEC_DIR, "_gen_Er7MC_%s_%d.cfg" % (ctx.tier, os.getpid()))
    with open(cfg, "w") as f:
        f.write(cfg_text(depth))
    try:
        r = tlc.run("Er7MC", os.path.basename(cfg), workers=16, timeout=1500, coverage=False)
    finally:
        os.unlink(cfg)
    if r.violated or not r.completed:
        ctx.machinery_failure("Er7MC: the reference grammar violates its own law %r\n%s" % (r.violated, r.raw[-2000:]))
    ctx.add_mc(r, "Er7MC depth<=%d: generator of abstract segments x laws %s" % (depth, ",".join(INVS)))
    return r
