"""Shared driver for C08 (group finding) and C03 (no silent loss).

M: GroupFinderMC — the prescription (GroupFinder!Prescribed) is sound, flattens to its input and leaves no group
   empty on a family of small structures x all short inputs.
R: instances are generated from every real message structure (required-only, all-children, one optional toggled,
   each repeatable group repeated, nested repetition) and, for C03, perturbed (foreign / Z / other-message segments at
   every kind of position, duplicated members, fields beyond the defined count, repetitions).
T: the parsed tree (recursive .children), the encodings with and without group finding and the validation verdict are
   judged by GroupTrace (TLC), which computes soundness, flattening, the prescribed tree and the leaf sequences."""
import random
import re

from .. import tables as T
from .. import tlc
from ..common import cps, pmap, judge, import_hl7apy, exc_name

EC = [124, 94, 38, 126, 92, 0]


def flatten_structure(st):
    """-> nodes [[name, kind, min, max, par]] (par = index of the enclosing group node, 0 = message)"""
    nodes = []

    def walk(kids, par):
        for k in kids:
            nodes.append([k["name"], k["kind"], k["min"], k["max"], par])
            me = len(nodes)
            if k["kind"] == "GRP":
                walk(k["kids"], me)
    walk(st["kids"], 0)
    return nodes


def msh(v, name):
    parts = name.split("_")
    typ = "%s^%s^%s" % (parts[0], parts[1] if len(parts) > 1 else "", name)
    return "MSH|^~\\&|A|B|C|D|20200101120000||%s|ID1|P|%s" % (typ, v)


def seg_text(name, n=1, v=None):
    """a minimal line; a segment the version defines without fields (withdrawn, e.g. URD in 2.8.2) conforms only bare"""
    if v is not None and len(name) == 3 and name[0] != "Z" and name in T.seg_names(v) and not T.seg_rows(v, name):
        return name
    return "%s|%d" % (name, n)


def minimal_instance(kids):
    """smallest non-empty conforming content of a group: its required content, or - when every member is optional -
    its first member (with that member's own minimal content)"""
    r = gen_required(kids)
    if r:
        return r
    for k in kids:
        if k["kind"] == "SEG":
            return [k["name"]]
        r = minimal_instance(k["kids"])
        if r:
            return r
    return []


def gen_required(kids):
    out = []
    for k in kids:
        if k["min"] >= 1:
            if k["kind"] == "SEG":
                out.append(k["name"])
            else:
                out.extend(minimal_instance(k["kids"]))
    return out


def gen_all(kids):
    out = []
    for k in kids:
        out.extend([k["name"]] if k["kind"] == "SEG" else gen_all(k["kids"]))
    return out


def gen_with(kids, chosen, rep, full):
    """required children + the node `chosen` (by id) forced in; group `rep` (by id) produced rep[id] times"""
    out = []
    for k in kids:
        inc = k["min"] >= 1 or full or id(k) in chosen
        if not inc:
            continue
        times = rep.get(id(k), 1)
        for _ in range(times):
            if k["kind"] == "SEG":
                out.append(k["name"])
            else:
                out.extend(gen_with(k["kids"], chosen, rep, full) or minimal_instance(k["kids"]))
    return out


def ancestors_map(st):
    par = {}

    def walk(kids, p):
        for k in kids:
            par[id(k)] = p
            if k["kind"] == "GRP":
                walk(k["kids"], k)
    walk(st["kids"], None)
    return par


def all_nodes(st):
    out = []

    def walk(kids):
        for k in kids:
            out.append(k)
            if k["kind"] == "GRP":
                walk(k["kids"])
    walk(st["kids"])
    return out


def instances(st, rnd, quick):
    """-> [(mode, [segment names], conforming)]"""
    res = []
    res.append(("required_only", gen_required(st["kids"]), True))
    res.append(("all_children", gen_all(st["kids"]), True))
    nodes = all_nodes(st)
    par = ancestors_map(st)
    optional = [k for k in nodes if k["min"] == 0]
    rnd.shuffle(optional)
    for k in optional[:3 if quick else 12]:
        chosen = set([id(k)])
        p = par[id(k)]
        while p is not None:
            chosen.add(id(p))
            p = par[id(p)]
        res.append(("optional:" + k["name"], gen_with(st["kids"], chosen, {}, False), True))
    groups = [k for k in nodes if k["kind"] == "GRP" and k["max"] != 1]
    rnd.shuffle(groups)
    for g in groups[:3 if quick else 12]:
        chosen = set([id(g)])
        p = par[id(g)]
        while p is not None:
            chosen.add(id(p))
            p = par[id(p)]
        res.append(("repeat2:" + g["name"], gen_with(st["kids"], chosen, {id(g): 2}, False), True))
        # repetitions that differ: one with every member, one with the required members only (both orders)
        full_rep = gen_with(g["kids"], set(), {}, True) or minimal_instance(g["kids"])
        min_rep = minimal_instance(g["kids"])
        if full_rep != min_rep:
            base = gen_with(st["kids"], chosen, {id(g): 1}, False)
            one = gen_with(st["kids"], chosen, {id(g): 1}, False)
            # splice: find the group's minimal content inside the base instance and replace it by the two variants
            for k in range(len(base) - len(min_rep) + 1):
                if base[k:k + len(min_rep)] == min_rep:
                    res.append(("repeat_mixed_full_min:" + g["name"], base[:k] + full_rep + min_rep + base[k + len(min_rep):], True))
                    res.append(("repeat_mixed_min_full:" + g["name"], base[:k] + min_rep + full_rep + base[k + len(min_rep):], True))
                    res.append(("repeat_mixed_3:" + g["name"], base[:k] + full_rep + min_rep + full_rep + base[k + len(min_rep):], True))
                    break
        res.append(("repeat3full:" + g["name"], gen_with(st["kids"], chosen, {id(g): 3}, True), True))
        # nested repetition: the group and one repeatable group inside it
        inner = [k for k in all_nodes({"kids": g["kids"]}) if k["kind"] == "GRP" and k["max"] != 1]
        if inner:
            i2 = rnd.choice(inner)
            ch2 = set(chosen) | set([id(i2)])
            p = par[id(i2)]
            while p is not None:
                ch2.add(id(p))
                p = par[id(p)]
            res.append(("nested:%s/%s" % (g["name"], i2["name"]), gen_with(st["kids"], ch2, {id(g): 2, id(i2): 2}, False), True))
    # repeatable segments repeated
    segs = [k for k in nodes if k["kind"] == "SEG" and k["max"] != 1]
    for s in segs[:2 if quick else 8]:
        chosen = set([id(s)])
        p = par[id(s)]
        while p is not None:
            chosen.add(id(p))
            p = par[id(p)]
        res.append(("segrep:" + s["name"], gen_with(st["kids"], chosen, {id(s): 3}, False), True))
    return [(m, names, c) for (m, names, c) in res if names and names[0] == "MSH"]


def perturb(names, v, st_names, rnd, quick):
    """C03: content the structure does not list / cannot place"""
    out = []
    foreign = [s for s in T.seg_names(v) if s not in st_names and len(s) == 3 and T.seg_rows(v, s)]
    pos = sorted(set([1, len(names) // 2 + 1, len(names)]))
    for p in pos:
        out.append(("zseg@%d" % p, names[:p] + ["ZZ1"] + names[p:]))
        if foreign:
            out.append(("foreign@%d" % p, names[:p] + [rnd.choice(foreign)] + names[p:]))
    if len(names) > 1:
        k = rnd.randrange(1, len(names))
        out.append(("dup:" + names[k], names[:k + 1] + [names[k]] + names[k + 1:]))
        out.append(("zrun", names + ["ZZ1", "ZZ2", "ZZ1"]))
        out.append(("swap", names[:1] + list(reversed(names[1:]))))
    # a segment the version defines WITHOUT fields (withdrawn: QRD, QRF, URD, URS from 2.7 on), sent with content
    fieldless = [s for s in T.seg_names(v) if len(s) == 3 and s not in st_names and T.seg_rows(v, s) == []]
    if fieldless:
        out.append(("fieldless:" + fieldless[0], names + [rnd.choice(fieldless)]))
    # the same unlisted name several times: after the header, and before each of the last members (inside open groups)
    must = []
    if len(names) > 2:
        for unl in ["ZZ1"] + ([rnd.choice(foreign)] if foreign else []):
            seq = list(names[:1]) + [unl]
            for k, n in enumerate(names[1:], 1):
                if k >= len(names) - 3:
                    seq.append(unl)
                seq.append(n)
            must.append(("same_unlisted:" + unl, seq))
    if not quick:
        return out + must
    if fieldless:
        must = must[:1] + [out[-1]] + must[1:]
        out = out[:-1]
    return rnd.sample(out, min(len(out), 3)) + must[:2] + (rnd.sample(must[1:], 1) if len(must) > 1 and rnd.random() < 0.5 else [])


def rich_line(name, v, rnd):
    """a segment line with repetitions, components, subcomponents and fields beyond the defined count"""
    rows = T.seg_rows(v, name) or []
    n = (rows[-1]["i"] if rows else 3)
    fields = []
    for i in range(1, n + 1):
        r = rnd.random()
        varies = bool(rows) and i <= len(rows) and rows[i - 1]["kind"] == "varies"
        if varies or r > 0.97:          # many components (more than nine) and subcomponents, also in fields of type varies
            fields.append("^".join("k%d_%d" % (i, j) for j in range(1, 13)) + "^m&n&o~p^q")
            continue
        if i == 1 and r > 0.9:
            fields.append("0")          # (a set id of zero)
            continue
        fields.append("" if r < 0.5 else "a%d" % i if r < 0.7 else "b%d^c%d" % (i, i) if r < 0.8 else "d%d~e%d" % (i, i)
                      if r < 0.86 else "~i%d" % i if r < 0.88 else "j%d~~k%d^l%d" % (i, i, i) if r < 0.9 else "f%d^g%d&h%d" % (i, i, i))
    extra = rnd.choice([[], [], ["x1"], ["", "x2", "y^z"]])
    text = "|".join([name] + fields + extra).rstrip("|")
    return text


def project_tree(m):
    rows = []

    def walk(el, par):
        for ch in el.children:
            kind = "GRP" if ch.classname == "Group" else "SEG"
            rows.append([ch.name or "?", kind, par])
            if kind == "GRP":
                walk(ch, len(rows))
    walk(m, 0)
    return rows


XEC = [33, 36, 64, 42, 63, 0]
XTRANS = str.maketrans("|^&~\\", "!$@*?")


def observe(v, sid, nodes, mode, names, conforming, want, lines=None, xec=False):
    """xec: the same message written with the delimiters ! $ @ * ? instead of the default ones"""
    import_hl7apy()
    from hl7apy.parser import parse_message
    group_names = set(n[0] for n in nodes if n[1] == "GRP") | set([sid])
    if lines is None:
        lines = [msh(v, sid)] + [seg_text(n, i + 1, v) for i, n in enumerate(names[1:])]
    if xec:
        lines = [ln.translate(XTRANS) for ln in lines]
        mode = mode + "+custom_delimiters"
    text = "\r".join(lines)
    e = {"v": v, "sid": sid, "msgname": sid, "mode": mode, "want": want, "struct": nodes, "input": names, "tree": [], "ec": XEC if xec else EC,
         "lines_in": [cps(x) for x in lines], "lines_fg": [], "lines_nofg": [], "out_fg": "ok", "out_nofg": "ok",
         "valid": False, "conforming": conforming, "verr": ""}
    try:
        m = parse_message(text, find_groups=True)
        e["tree"] = project_tree(m)
        e["lines_fg"] = [cps(x) for x in m.to_er7().split("\r")]
        try:
            r = m.validate(return_errors=True)
            structural = []
            for err in r.errors:
                s = str(err)
                mm = re.match(r"(Missing required child|Child limit exceeded) (\S+?)\.(\S+)", s)
                if mm and mm.group(2) in group_names:
                    structural.append(s)
                elif s.startswith("Invalid children detected for <Group") or s.startswith("Invalid children detected for <Message"):
                    structural.append(s)
            e["valid"] = not structural
            e["verr"] = "; ".join(structural)[:300]
        except Exception as ex:
            e["valid"] = False
            e["verr"] = "validate raised " + exc_name(ex)
    except Exception as ex:
        e["out_fg"] = exc_name(ex)
    try:
        m2 = parse_message(text, find_groups=False)
        e["lines_nofg"] = [cps(x) for x in m2.to_er7().split("\r")]
    except Exception as ex:
        e["out_nofg"] = exc_name(ex)
    if want == "C08":
        # the same text parsed under STRICT: when STRICT accepts it, the tree and its encoding are the same
        e["tree_strict"], e["lines_strict"], e["out_strict"] = [], [], "ok"
        try:
            ms = parse_message(text, find_groups=True, validation_level=1)
            e["tree_strict"] = project_tree(ms)
            e["lines_strict"] = [cps(x) for x in ms.to_er7().split("\r")]
        except Exception as ex:
            e["out_strict"] = exc_name(ex)
        e["tree_val"], e["out_val"] = [], "ok"
        try:
            from hl7apy.core import Message
            m3 = Message()
            m3.value = text
            e["tree_val"] = project_tree(m3)
        except Exception as ex:
            e["out_val"] = exc_name(ex)
    return e


def _chunk(args):
    v, sids, seed, quick, want = args[:5]
    light = set(args[5]) if len(args) > 5 else set()
    rnd = random.Random("%s-%s-%s" % (seed, v, want))
    out = []
    for sid in sids:
        try:
            st = T.structure(v, sid)
            nodes = flatten_structure(st)
        except Exception as ex:
            out.append({"harness_note": "structure %s %s not exportable: %r" % (v, sid, ex)})
            continue
        st_names = set(n[0] for n in nodes)
        if any(n[1] == "SEG" and len(n[0]) != 3 for n in nodes):
            out.append({"harness_note": "skipped %s %s: placeholder segment (ANYHL7SEGMENT) in the structure" % (v, sid)})
            continue
        insts = instances(st, rnd, quick)
        if sid in light:    # (quick tier: the structures outside the sample get their all-children instance only)
            insts = [x for x in insts if x[0] == "all_children"]
        for k_, (mode, names, conf) in enumerate(insts):
            if sid in light:
                if want == "C08":
                    out.append(observe(v, sid, nodes, mode, names, conf, want))
                else:
                    out.append(observe(v, sid, nodes, mode + "+rich", names, False, want,
                                       [msh(v, sid)] + [rich_line(n, v, rnd) for n in names[1:]]))
                continue
            if want == "C08":
                out.append(observe(v, sid, nodes, mode, names, conf, want))
                if k_ % 3 == 0 or not quick:
                    # ... and with content in the segments (components, repetitions), in the message's own delimiters
                    lines = [msh(v, sid)] + [rich_line(n, v, rnd) for n in names[1:]]
                    out.append(observe(v, sid, nodes, mode, names, conf, want, lines, xec=True))
            else:
                # C03: the plain instance with rich lines, and perturbed ones
                lines = [msh(v, sid)] + [rich_line(n, v, rnd) for n in names[1:]]
                out.append(observe(v, sid, nodes, mode + "+rich", names, False, want, lines))
                if k_ % 3 == 0 or not quick:
                    out.append(observe(v, sid, nodes, mode + "+rich", names, False, want, lines, xec=True))
                if mode in ("required_only", "all_children"):
                    for (pm, pn) in perturb(names, v, st_names, rnd, quick):
                        lines = [msh(v, sid)] + [rich_line(n, v, rnd) if not n.startswith("ZZ") else "%s|z1|z2^z3|z4~z5" % n
                                                 for n in pn[1:]]
                        out.append(observe(v, sid, nodes, mode + "+" + pm, pn, False, want, lines))
    return out


def model_check(ctx):
    r = tlc.run("GroupFinderMC", "GroupFinderMC.cfg", workers=16, timeout=1200)
    if r.violated or not r.completed:
        ctx.machinery_failure("GroupFinderMC: %r\n%s" % (r.violated, r.raw[-1200:]))
    ctx.add_mc(r, "GroupFinderMC: prescription sound / flattens / no empty group on 3 structures x all inputs <= 6")


def run(ctx, want, signature):
    quick = ctx.tier == "quick"
    model_check(ctx)
    rnd = random.Random(ctx.seed + (8 if want == "C08" else 3))
    jobs = []
    total = 0
    for v in T.versions():
        sids = T.message_names(v)
        total += len(sids)
        rest = []
        if quick:
            rnd.shuffle(sids)
            n_ = 22 if want == "C08" else 7
            sids, rest = sids[:n_], sorted(sids[n_:])
        for k in range(3):
            jobs.append((v, sids[k::3], ctx.seed, quick, want))
        # quick tier: every structure of every version is at least instantiated once (all its members, in order)
        for k in range(2):
            if rest[k::2]:
                jobs.append((v, rest[k::2], ctx.seed, quick, want, rest[k::2]))
    events = []
    for part in pmap(_chunk, jobs):
        for e in part:
            if "harness_note" in e:
                ctx.notes.append(e["harness_note"])
            else:
                events.append(e)
    for i, e in enumerate(events):
        e["id"] = i + 1
    ctx.evaluations += len(events)
    ctx.extra["message_structures_total"] = total
    ctx.extra["message_structures_used"] = len(set((e["v"], e["sid"]) for e in events))
    send = [{k: e[k] for k in e if k not in ("verr", "mode", "sid")} for e in events]
    failed, trivial = judge(ctx, "GroupTrace", "GroupTrace.cfg", send, heap="4g")
    byid = {e["id"]: e for e in events}
    for e in events:
        if e["id"] not in trivial:
            ctx.nontrivial((e["v"], e["sid"], e["mode"]))
    for i, cl in sorted(failed.items()):
        e = byid[i]
        clause, line = cl if isinstance(cl, tuple) else (cl, 0)
        e["bad_line"] = line
        ctx.fail(signature(e, clause), {"bad_line": line, "clause": clause, "v": e["v"], "sid": e["sid"], "mode": e["mode"], "input": e["input"],
                                        "tree": e["tree"], "out_fg": e["out_fg"], "out_nofg": e["out_nofg"], "verr": e["verr"],
                                        "lines_in": ["".join(chr(c) for c in x) for x in e["lines_in"]],
                                        "lines_fg": ["".join(chr(c) for c in x) for x in e["lines_fg"]],
                                        "lines_nofg": ["".join(chr(c) for c in x) for x in e["lines_nofg"]]})
    for e in events[:3]:
        ctx.sample({"v": e["v"], "sid": e["sid"], "mode": e["mode"], "input": e["input"], "tree": e["tree"][:12]})
    ctx.exhaustive = not quick
