"""C17 — explicit arguments override process-wide defaults.

M: Defaults.tla generates every history (bounded length) of default changes interleaved with explicit calls,
   creations and later observations; the reference result of a call does not read the defaults.
R: the histories are replayed in real processes: set_default_version / _validation_level / _encoding_chars with
   concrete values cycling through all 12 versions, both levels and three delimiter sets; each Call runs a corpus of
   explicit-argument calls whose digests are compared with the digests under pristine defaults; each Observe
   re-encodes elements created earlier.   T: DefaultsTrace (TLC) decides every recorded call / observation."""
import random

from .. import tlc
from .. import tables as T
from ..common import pmap, judge, import_hl7apy, exc_name

EC_STD = {"FIELD": "|", "COMPONENT": "^", "SUBCOMPONENT": "&", "REPETITION": "~", "ESCAPE": "\\"}
EC_CUSTOM = {"FIELD": "!", "COMPONENT": "@", "SUBCOMPONENT": "$", "REPETITION": "%", "ESCAPE": "/"}
EC_27 = {"FIELD": "*", "COMPONENT": ":", "SUBCOMPONENT": ";", "REPETITION": "+", "ESCAPE": "?", "TRUNCATION": "="}
EC_CHOICES = {1: None, 2: EC_CUSTOM, 3: EC_27}


def full(ec):
    d = dict(ec)
    d["SEGMENT"] = "\r"
    d["GROUP"] = "\r"
    return d


def dig(fn):
    try:
        r = fn()
    except Exception as ex:
        return "exc:" + exc_name(ex)
    if isinstance(r, (str, bool, int)):
        return str(r)
    try:
        return "%s:%s" % (type(r).__name__, r.to_er7(full(EC_STD)))
    except Exception as ex:
        return "%s:?%s" % (type(r).__name__, exc_name(ex))


def corpus(v):
    """explicit-argument calls for version v: [(name, thunk)]"""
    import_hl7apy()
    from hl7apy.parser import parse_message, parse_segment, parse_field, parse_component
    from hl7apy.core import Message, Segment, Field, Component, is_base_datatype
    from hl7apy.factories import datatype_factory
    calls = []
    typ = "ADT^A01" if v < "2.3.1" else "ADT^A01^ADT_A01"
    text = "MSH|^~\\&|A|B|C|D|20200101||%s|1|P|%s\rEVN||20200101\rPID|1||12^^^X~13||DOE^JOHN&X\rPV1|1|I" % (typ, v)
    text2 = text.replace("|", "!").replace("^", "@").replace("~", "%").replace("&", "$").replace("\\", "/")
    long_bad = "x" * 250

    def vrep(m):
        r = m.validate(return_errors=True)
        return "%s/%d/%d" % (r.is_valid, len(r.errors), len(r.warnings))
    for L in (1, 2):
        for fg in (True, False):
            calls.append(("parse_message std L%d fg%d" % (L, fg), lambda L=L, fg=fg: parse_message(text, validation_level=L, find_groups=fg).to_er7()))
        calls.append(("parse_message custom-ec L%d" % L, lambda L=L: parse_message(text2, validation_level=L).to_er7()))
        calls.append(("parse_message+validate L%d" % L, lambda L=L: vrep(parse_message(text, validation_level=L))))
        # repeated groups (the parser opens further instances of a group)
        if v >= "2.3.1":
            oru = ("MSH|^~\\&|A|B|C|D|20200101||ORU^R01^ORU_R01|1|P|%s\rPID|1||12^^^X||DOE^JOHN\rOBR|1|||T^t\rOBX|1|ST|a||v\rOBX|2|ST|b||w\r"
                   "OBR|2|||U^u\rOBX|1|ST|c||x\rOBX|2|ST|d||y" % v)
            calls.append(("parse_message repeated groups L%d" % L, lambda L=L, oru=oru: parse_message(oru, validation_level=L).to_er7()))
            calls.append(("parse_message repeated groups tree L%d" % L,
                          lambda L=L, oru=oru: ",".join("%s%d" % (c.name, len(c.children)) for c in parse_message(oru, validation_level=L).children)))
        # a message type no structure is known for, written with its own delimiters
        text3 = text2.replace("ADT@A01@ADT_A01", "XYZ@Q99").replace("ADT@A01", "XYZ@Q99")
        calls.append(("parse_message unknown-type custom-ec L%d" % L, lambda L=L, text3=text3: parse_message(text3, validation_level=L).to_er7()))

        # positional names (<field>_1) on fields of a base datatype: which datatypes are base depends on the version of the TREE
        def positional(L=L):
            from .. import tables as T
            out = []
            vals = {"SI": "1", "NM": "1", "DT": "20200101", "TM": "1201", "DTM": "20200101", "TS": "20200101"}
            for segname in ("PID", "PV1", "ORC", "OBR", "EVN", "MSH"):
                rows = [r for r in (T.seg_rows(v, segname) or []) if r["kind"] == "base" and r["max"] != 0][:6]
                sg = Segment(segname, version=v, validation_level=L)
                for r in rows:
                    if r["name"] in ("MSH_1", "MSH_2"):
                        continue
                    nm = r["name"].lower() + "_1"
                    try:
                        setattr(sg, nm, vals.get(r["dt"], "A"))
                        out.append("%s=%s" % (nm, getattr(sg, nm).to_er7()))
                    except Exception as ex:
                        out.append("%s!%s" % (nm, type(ex).__name__))
                    try:        # ... and the same positional name asked of the field itself
                        fld = Field(r["name"], version=v, validation_level=L)
                        setattr(fld, nm, vals.get(r["dt"], "A"))
                        out.append("F.%s=%s/%s" % (nm, getattr(fld, nm).to_er7(), getattr(getattr(sg, r["name"].lower()), nm).to_er7()))
                    except Exception as ex:
                        out.append("F.%s!%s" % (nm, type(ex).__name__))
                out.append(sg.to_er7(full(EC_STD)))
            return " ".join(out)
        calls.append(("positional names on base-datatype fields L%d" % L, positional))
        calls.append(("parse_message names L%d" % L, lambda L=L: ",".join(c.name for c in parse_message(text, validation_level=L).children)))
        for ecn, ec in (("std", EC_STD), ("custom", EC_CUSTOM)):
            e = full(ec)
            seg = "PID|1||5^^^Z~6||A^B&C".replace("|", ec["FIELD"]).replace("^", ec["COMPONENT"]).replace("~", ec["REPETITION"]).replace("&", ec["SUBCOMPONENT"])
            calls.append(("parse_segment %s L%d" % (ecn, L), lambda seg=seg, e=e, L=L: parse_segment(seg, version=v, encoding_chars=e, validation_level=L).to_er7(e)))
            calls.append(("parse_field %s L%d" % (ecn, L), lambda e=e, L=L, ec=ec: parse_field("A%sB%sC" % (ec["COMPONENT"], ec["SUBCOMPONENT"]), name="PID_5", version=v, encoding_chars=e, validation_level=L).to_er7(e)))
            calls.append(("parse_component %s L%d" % (ecn, L), lambda e=e, L=L, ec=ec: parse_component("B%sC" % ec["SUBCOMPONENT"], name="CX_4", datatype="HD", version=v, encoding_chars=e, validation_level=L).to_er7(e)))

            def build_seg(e=e, L=L):
                s = Segment("PID", version=v, validation_level=L)
                s.pid_1 = "1"
                s.add_field("pid_3").cx_1 = "77"
                return s.to_er7(e)
            calls.append(("Segment build %s L%d" % (ecn, L), build_seg))

            def build_msg(e=e, L=L):
                m = Message("ADT_A01", version=v, validation_level=L, encoding_chars=dict(e))
                m.msh.msh_7 = "20200101"
                m.msh.msh_9 = typ.replace("^", e["COMPONENT"])
                m.msh.msh_10 = "1"
                m.pid.pid_1 = "1"
                return m.to_er7() + "#" + vrep(m) + "#" + m.to_mllp()
            calls.append(("Message build %s L%d" % (ecn, L), build_msg))

            def assign_inside(e=e, L=L, ec=ec):
                # text assigned to children of elements that are attached to a message: split with the MESSAGE's delimiters
                m = Message("ADT_A01", version=v, validation_level=L, encoding_chars=dict(e))
                m.msh.msh_7 = "20200101"
                pid = m.add_segment("PID")
                f = pid.add_field("PID_3")
                f.cx_1 = "123"
                f.cx_4 = "NS%s1.2.3%sISO" % (ec["SUBCOMPONENT"], ec["SUBCOMPONENT"])
                pid.pid_5 = "DOE%sJOHN" % ec["COMPONENT"]
                nk1 = m.add_segment("NK1")
                nk1.nk1_2 = "A%sB%sC" % (ec["COMPONENT"], ec["SUBCOMPONENT"])
                m.pv1 = "PV1%s1%sI%sW%s1" % (ec["FIELD"], ec["FIELD"], ec["FIELD"], ec["COMPONENT"])
                # ... and to children reached through elements that do not exist yet
                m.pd1.pd1_3 = "ORG%sX%sY" % (ec["COMPONENT"], ec["SUBCOMPONENT"])
                m.pv2.pv2_3.value = "R%sS" % ec["COMPONENT"]
                return m.to_er7()
            calls.append(("assign text inside a message %s L%d" % (ecn, L), assign_inside))
        # every level's own to_er7() without arguments, inside a message written with its own delimiters: the MESSAGE's set
        def leaf_encodings(L=L):
            m = parse_message(text2, validation_level=L)
            m.pid.pid_5.xpn_1.fn_1 = "DO|E&CO^"
            m.pid.pid_3.cx_4 = "N|S$1.2^3$I&O"
            sub = m.pid.pid_5.xpn_1.fn_1[0]
            hd3 = m.pid.pid_3.cx_4.hd_3[0]
            out = [sub.to_er7(), hd3.to_er7(), m.pid.pid_3.cx_4.to_er7(), m.pid.pid_3.to_er7(), m.pid.pid_5.to_er7(), m.pid.to_er7(),
                   vrep(m)]
            return " ; ".join(out)
        calls.append(("to_er7() of every level inside a custom-ec message L%d" % L, leaf_encodings))

        # the library's own constant / the set the library reports as default at import time, handed over explicitly
        def const_ec(L=L):
            from hl7apy.consts import DEFAULT_ENCODING_CHARS as K
            s1 = parse_segment("PID|1||5^^^Z~6||A^B&C!D@E", version=v, encoding_chars=K, validation_level=L)
            f1 = parse_field("A^B&C!D", name="PID_5", version=v, encoding_chars=K, validation_level=L)
            m1 = Message("ADT_A01", version=v, validation_level=L, encoding_chars=K)
            m1.msh.msh_7 = "20200101"
            m1.pid.pid_5 = "DOE^JOHN!X"
            return " ; ".join([s1.to_er7(K), str(len(s1.children)), f1.to_er7(K), str(len(f1.children)), m1.to_er7(), m1.msh.msh_2.to_er7(),
                               "".join(K[k_] for k_ in ("FIELD", "COMPONENT", "REPETITION", "ESCAPE", "SUBCOMPONENT"))])
        calls.append(("explicit encoding_chars = hl7apy.consts.DEFAULT_ENCODING_CHARS L%d" % L, const_ec))
        calls.append(("parse_segment overlong-invalid-date L%d" % L, lambda L=L: parse_segment("PID|1||||||" + long_bad, version=v, validation_level=L, encoding_chars=full(EC_STD)).to_er7(full(EC_STD))))
        calls.append(("parse_segment overlong-text L%d" % L, lambda L=L: parse_segment("PID|1||" + long_bad, version=v, validation_level=L, encoding_chars=full(EC_STD)).to_er7(full(EC_STD))))
        for dt, val in (("DT", "20200102"), ("DT", "nodate"), ("DT", long_bad), ("NM", "12.50"), ("NM", "x"), ("ST", long_bad),
                        ("TM", "1201"), ("SI", "7"), ("ID", "Y"), ("FT", "a|b"), ("IS", "y" * 25), ("IS", "M"), ("ST", "x" * 199)):
            calls.append(("datatype_factory %s %s L%d" % (dt, val[:8], L), lambda dt=dt, val=val, L=L: datatype_factory(dt, val, v, L)))

        def comp(L=L):
            c = Component("CX_4", version=v, validation_level=L)
            c.add_subcomponent("HD_1").value = "N"
            return c.to_er7(full(EC_STD))
        calls.append(("Component add_subcomponent L%d" % L, comp))

        def field(L=L):
            f = Field("PID_3", version=v, validation_level=L)
            f.cx_1 = "5"
            f.cx_4.hd_2 = "U"
            return f.to_er7(full(EC_STD))
        calls.append(("Field build L%d" % L, field))
        for bdt in ("SNM", "TM", "DTM", "GTS", "TN", "CM", "TS"):
            def unk(bdt=bdt, L=L):
                c = Component(datatype=bdt, version=v, validation_level=L)
                c.add_subcomponent(bdt)
                return c.to_er7(full(EC_STD))
            calls.append(("unknown Component(%s).add_subcomponent L%d" % (bdt, L), unk))
    for dt in ("ST", "CX", "SNM", "TM", "DTM", "TS", "CM", "TN"):
        calls.append(("is_base_datatype %s" % dt, lambda dt=dt: is_base_datatype(dt, v)))
    return calls


def creators(v):
    """elements created under whatever the defaults are at that moment; observed again later"""
    import_hl7apy()
    from hl7apy.core import Message, Segment, Field
    from hl7apy.parser import parse_message, parse_segment

    def seg_default():
        s = Segment("PID")
        s.pid_1 = "1"
        s.pid_8 = "F"
        return s

    def seg_explicit():
        s = Segment("PID", version=v)
        s.pid_1 = "1"
        s.add_field("pid_3").cx_1 = "9"
        s.add_field("pid_3").cx_1 = "8"
        return s

    def msg_default():
        m = Message("ADT_A01")
        m.msh.msh_7 = "20200101"
        m.pid.pid_1 = "1"
        m.pid.pid_5.xpn_1.fn_1 = "DOE"
        return m

    def msg_parsed():
        typ = "ADT^A01" if v < "2.3.1" else "ADT^A01^ADT_A01"
        return parse_message("MSH|^~\\&|A|B|C|D|20200101||%s|1|P|%s\rEVN||20200101\rPID|1||12^^^X~13||DOE^JOHN" % (typ, v))

    def seg_parsed():
        return parse_segment("PID|1||5^^^Z~6||A^B&C")
    def msg_const_ec():
        from hl7apy.consts import DEFAULT_ENCODING_CHARS as K
        m = Message("ADT_A01", version=v, encoding_chars=K)
        m.msh.msh_7 = "20200101"
        m.pid.pid_5 = "DOE^JOHN!X"
        return m

    def msg_custom():
        typ = "ADT@A01" if v < "2.3.1" else "ADT@A01@ADT_A01"
        m = parse_message("MSH!@%%/$!A!B!C!D!20200101!!%s!1!P!%s\rPID!1!!12@@@X%%13!!DO|E&CO@JOHN$X" % (typ, v))
        return m.pid.pid_5.xpn_1.fn_1[0]
    return [("Message(encoding_chars=consts.DEFAULT_ENCODING_CHARS)", msg_const_ec, "message"),
            ("subcomponent of a parsed custom-ec message", msg_custom, "message"),
            ("Segment() defaults", seg_default, "parentless"), ("Segment(version) explicit", seg_explicit, "parentless"),
            ("Message() defaults", msg_default, "message"), ("parse_message", msg_parsed, "message"),
            ("parse_segment defaults", seg_parsed, "parentless")]


def observe(el):
    try:
        r = el.validate(return_errors=True)
        val = "%s/%d" % (r.is_valid, len(r.errors))
    except Exception as ex:
        val = "exc:" + exc_name(ex)
    try:
        enc = el.to_er7()
    except Exception as ex:
        enc = "exc:" + exc_name(ex)
    return "%s|v=%s|l=%s|%s" % (enc, el.version, el.validation_level, val)


_BASE = {}


def baseline(v):
    if v not in _BASE:
        _BASE[v] = [dig(fn) for (_, fn) in corpus(v)]
    return _BASE[v]


def reset():
    import hl7apy
    from hl7apy.consts import DEFAULT_ENCODING_CHARS, DEFAULT_VERSION
    hl7apy.set_default_version(DEFAULT_VERSION)
    hl7apy.set_default_validation_level(2)
    hl7apy._DEFAULT_ENCODING_CHARS = DEFAULT_ENCODING_CHARS


def replay(item):
    """item = (history, vmap {2: version, 3: version}, call_version) -> events"""
    import_hl7apy()
    import hl7apy
    hist, vmap, cv = item
    reset()
    base = baseline(cv)
    names = [n for (n, _) in corpus(cv)]
    events = []
    made = {}
    cur = {"dv": "2.5", "dl": 2, "dec": 1}
    try:
        for step in hist:
            op, arg = step[0], step[1]
            if op == "SetVersion":
                cur["dv"] = "2.5" if arg == 1 else vmap[arg]
                hl7apy.set_default_version(cur["dv"])
            elif op == "SetLevel":
                cur["dl"] = 2 if arg == 1 else 1
                hl7apy.set_default_validation_level(cur["dl"])
            elif op == "SetEc":
                cur["dec"] = arg
                if arg == 1:
                    from hl7apy.consts import DEFAULT_ENCODING_CHARS
                    hl7apy._DEFAULT_ENCODING_CHARS = DEFAULT_ENCODING_CHARS
                else:
                    hl7apy.set_default_encoding_chars(dict(EC_CHOICES[arg]))
            elif op == "Call":
                calls = corpus(cv)
                for i, (n, fn) in enumerate(calls):
                    if i % 2 != arg % 2:
                        continue
                    events.append({"k": "call", "name": n, "v": cv, "result": dig(fn), "baseline": base[i],
                                   "dv": cur["dv"], "dl": cur["dl"], "dec": cur["dec"], "dv0": "2.5", "dl0": 2, "dec0": 1})
            elif op == "Create":
                made[arg] = []
                for (n, mk, cls) in creators(cv):
                    try:
                        el = mk()
                    except Exception:
                        continue
                    made[arg].append((n, cls, el, observe(el), dict(cur)))
            elif op == "Observe":
                for (n, cls, el, rec, at) in made.get(arg, []):
                    events.append({"k": "observe", "name": n, "cls": cls, "v": cv, "now": observe(el), "recorded": rec,
                                   "dv": cur["dv"], "dl": cur["dl"], "dec": cur["dec"], "dv0": at["dv"], "dl0": at["dl"],
                                   "dec0": at["dec"]})
    finally:
        reset()
    return events


def _chunk(items):
    out = []
    for it in items:
        try:
            out.extend(replay(it))
        except Exception as ex:
            out.append({"harness_error": repr(ex), "hist": it[0]})
    return out


def signature(e, clause):
    sig = {"clause": clause, "name": e["name"], "v": e["v"], "changed": "+".join(
        [k for k, k0 in (("dv", "dv0"), ("dl", "dl0"), ("dec", "dec0")) if e[k] != e[k0]])}
    if e["k"] == "observe":
        sig["cls"] = e["cls"]
    return sig


def run(ctx):
    quick = ctx.tier == "quick"
    rnd = random.Random(ctx.seed + 17)
    r, states = tlc.dump_states("Defaults", "Defaults.cfg", workers=4, timeout=600)
    if r.violated or not r.completed:
        ctx.machinery_failure("Defaults: %r\n%s" % (r.violated, r.raw[-1200:]))
    ctx.add_mc(r, "Defaults: all histories of length <= 4 over 3 versions x 2 levels x 3 delimiter sets x Call/Create/Observe")
    hists = []
    for s in states:
        h = s["hist"]
        if not h:
            continue
        last = h[-1][0]
        if last not in ("Call", "Observe"):
            continue
        if not any(x[0].startswith("Set") for x in h):
            continue
        hists.append([list(x) for x in h])
    ctx.extra["interesting_histories"] = len(hists)
    rnd.shuffle(hists)
    vs = T.versions()
    items = []
    n = 320 if quick else 3000
    for i, h in enumerate(hists[:n]):
        vmap = {2: rnd.choice(vs), 3: rnd.choice(vs)}
        items.append((h, vmap, rnd.choice(vs)))
    # every ordered pair (version of the call, default version in force): what is a base datatype, which structures
    # exist, ... differs between versions, so a leak of the default shows only for some pairs
    pairs = [(cv, dv) for cv in vs for dv in vs if cv != dv]
    if quick:
        pairs = rnd.sample(pairs, 66)
    for cv, dv in pairs:
        for half in (0, 1):
            items.append(([["SetVersion", 2], ["Call", half]], {2: dv, 3: dv}, cv))
    events = []
    for part in pmap(_chunk, [items[k::16] for k in range(16)]):
        for e in part:
            if "harness_error" in e:
                ctx.machinery_failure("replay: %s on %s" % (e["harness_error"], e["hist"]))
            else:
                events.append(e)
    for i, e in enumerate(events):
        e["id"] = i + 1
    ctx.evaluations += len(events)
    failed, trivial = judge(ctx, "DefaultsTrace", "DefaultsTrace.cfg", events)
    byid = {e["id"]: e for e in events}
    for e in events:
        if e["id"] not in trivial:
            ctx.nontrivial((e["k"], e["name"], e["v"], e["dv"], e["dl"], e["dec"]))
    for i, clause in sorted(failed.items()):
        e = byid[i]
        ctx.fail(signature(e, clause), {"event": e, "clause": clause})
    for e in events[:3]:
        ctx.sample({k: e[k] for k in ("k", "name", "v", "dv", "dl", "dec") if k in e})
    ctx.rule = ("TLC-generated histories (length <= 4) ending in a Call or Observe with at least one default changed, "
                "replayed with the abstract version values mapped onto all 12 versions in turn; a Call runs half of a "
                "corpus of ~110 explicit-argument calls for one version; non-trivial = some default differs from the one "
                "in force when the baseline / the element was made (decided by TLC)")
    ctx.assumptions += ["the baseline of a call is its result under pristine defaults in the same process"]
