"""C09 — child mutations behave like edits of an ordered list."""
from . import tree

FOCUS = tree.STEP_CLAUSES | {"rejected_but_must_succeed"}
QUICK = {"names": ["A", "B"], "objs": 3, "nvals": 1, "kids": 2, "held": 1, "state_fraction": 0.04, "extra_paths": 1}
THOROUGH = {"names": ["A", "B"], "objs": 3, "nvals": 2, "kids": 2, "held": 1, "state_fraction": 1.0, "extra_paths": 2}


def run(ctx):
    tree.run_property(ctx, FOCUS, QUICK, THOROUGH)
