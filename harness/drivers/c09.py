"""C09 — child mutations behave like edits of an ordered list."""
from . import tree

FOCUS = tree.STEP_CLAUSES | {"rejected_but_must_succeed"}
QUICK = {"names": ["A", "B"], "objs": 3, "nvals": 1, "kids": 2, "held": 1, "state_fraction": 0.05, "extra_paths": 1, "walks": {"names": ["A", "B", "C"], "objs": 6, "kids": 4, "held": 2, "num": 140, "depth": 40}, "only": "accepted"}
THOROUGH = {"names": ["A", "B"], "objs": 3, "nvals": 1, "kids": 2, "held": 1, "state_fraction": 0.06, "extra_paths": 1, "walks": {"names": ["A", "B", "C"], "objs": 6, "kids": 4, "held": 2, "num": 500, "depth": 50}, "only": "accepted"}


def run(ctx):
    tree.run_property(ctx, FOCUS, QUICK, THOROUGH)
