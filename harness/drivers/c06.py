"""C06 — escaping is delimiter-safe and idempotent for every delimiter set.

M: EscapeMC — all strings up to a length bound over delimiters, escape character, escape letters and the heads of
   the multi-character sequences: the tokenising reference satisfies Allowed, is idempotent, and its fixpoints are
   exactly the stable texts; the algorithm shipped in 1.3.x (EscapeOld) must be refuted (negative control).
R+T: the same enumeration rendered with concrete delimiter sets (including every regex metacharacter), pushed through
   every textual datatype class of every version and through segments; EscapeTrace decides."""
import itertools
import random

from .. import tables as T
from .. import tlc
from ..common import cps, pmap, judge, import_hl7apy, exc_name

# roles: F C S R T E  + letters S H E L X 0 q
ROLES = ["F", "C", "S", "R", "T", "E", "lS", "lH", "lL", "X", "0", "q"]
EC_SETS = [
    "|^&~\\#",      # default
    "*+?.$(",       # regex metacharacters
    "[]{})|",       # brackets, and the pipe as escape character
    "^$.|\\*",      # anchors, backslash kept
    "!@%;/:",       # harmless punctuation
    "-,=<>\"",      # range/quote characters
    "'`_~\\#",      # underscore etc.
    "\\|^&~#",      # backslash as FIELD separator, tilde as escape
]
KEYS = ["FIELD", "COMPONENT", "SUBCOMPONENT", "REPETITION", "ESCAPE", "TRUNCATION"]
TEXT_CLASSES = ["ST", "FT", "TX", "ID", "IS", "GTS", "SNM", "WD"]


def ec_dict(s, fam, trunc=True):
    """trunc = False: a set of a 2.7+ message without the (optional) truncation character"""
    d = {k: c for k, c in zip(KEYS, s)}
    d["SEGMENT"] = "\r"
    d["GROUP"] = "\r"
    if fam != 27 or not trunc:
        del d["TRUNCATION"]
    return d


def ec_list(s, fam, trunc=True):
    return [ord(c) for c in s[:5]] + [ord(s[5]) if fam == 27 and trunc else 0]


def render(roles, ecs):
    m = {"F": ecs[0], "C": ecs[1], "S": ecs[2], "R": ecs[3], "E": ecs[4], "T": ecs[5],
         "lS": "S", "lH": "H", "lL": "L", "X": "X", "0": "0", "q": "q"}
    return "".join(m[r] for r in roles)


def distinct_classes():
    """(module.qualname, family of the version using it) -> (version, name, fam) for the textual classes of all versions;
    the family (five delimiters, or six from 2.7 on) is that of the VERSION, whatever module the class comes from"""
    import_hl7apy()
    out = {}
    for v in T.versions():
        for name, cls in T.lib(v).BASE_DATATYPES.items():
            if name in TEXT_CLASSES:
                fam = 27 if v >= "2.7" else 25
                key = "%s.%s/%d" % (cls.__module__, cls.__name__, fam)
                out.setdefault(key, (v, name, fam))
    return out


def _leaf_chunk(args):
    import_hl7apy()
    v, name, fam, ecs, strings = args[:5]
    trunc = args[5] if len(args) > 5 else True
    cls = T.lib(v).BASE_DATATYPES[name]
    ecd = ec_dict(ecs, fam, trunc)
    out = []
    for roles in strings:
        txt = render(roles, ecs)
        e = {"k": "leaf", "cls": name, "v": v, "fam": fam, "ec": ec_list(ecs, fam, trunc), "in": cps(txt), "out": [], "out2": [],
             "roles": "".join(r[-1] for r in roles), "hl": False}
        try:
            o = cls(txt).to_er7(ecd)
            e["out"] = cps(o)
            e["out2"] = cps(cls(o).to_er7(ecd))
            e["outcome"] = "ok"
        except Exception as ex:
            e["outcome"] = exc_name(ex)
        out.append(e)
        # the same text with a highlighted range (the \\H\\ .. \\N\\ markers are added by the library): every 11th text
        if len(txt) >= 2 and (len(out) % 11 == 0):
            a = len(txt) // 3
            b = max(a + 1, (2 * len(txt)) // 3)
            e2 = dict(e)
            e2.update({"hl": True, "out": [], "out2": []})
            try:
                o = cls(txt, highlights=((a, b),)).to_er7(ecd)
                e2["out"] = cps(o)
                e2["out2"] = e2["out"]
                e2["outcome"] = "ok"
            except Exception as ex:
                e2["outcome"] = exc_name(ex)
            out.append(e2)
    return out


SLOTS = [("pid_23", None, None), ("pid_5", "xpn_2", None), ("pid_3", "cx_4", "hd_2"), ("pid_6", "xpn_3", None),
         ("pid_1", None, "raw")]      # PID-1 is SI: text that is no number is kept as text (TOLERANT) and must be escaped as such


def _seg_chunk(args):
    import_hl7apy()
    from hl7apy.core import Segment, Message
    from hl7apy.parser import parse_segment
    v, fam, ecs, strings = args[:4]
    trunc = args[4] if len(args) > 4 else True
    L = T.lib(v)
    ecd = ec_dict(ecs, fam, trunc)
    out = []
    for n, roles in enumerate(strings):
        txt = render(roles, ecs)
        slot = SLOTS[n % len(SLOTS)]
        e = {"k": "inseg", "v": v, "fam": fam, "ec": ec_list(ecs, fam, trunc), "in": cps(txt), "slot": list(slot),
             "seg": [], "inert": [], "reparsed": [], "roles": "".join(r[-1] for r in roles), "orig": []}
        try:
            texts = []
            for val in (txt, "q" * max(1, len(txt))):
                seg = Segment("PID", version=v)
                seg.pid_1 = "1"
                if slot[2] == "raw":
                    # text that is no number, already escaped by the version's ST, arrives by PARSING: it is kept as
                    # text (TOLERANT) and must re-encode to exactly what came in
                    F = ecd["FIELD"]
                    t0 = "PID" + F + "n" + L.ST(val).to_er7(ecd) + F * 23 + "z"
                    seg = parse_segment(t0, version=v, encoding_chars=ecd)
                    if val is txt:
                        e["orig"] = cps(t0)
                    texts.append(seg.to_er7(ecd))
                    continue
                else:
                    # three ways of handing the datatype object over: leaf.value = obj; parent.<name> = obj; the latter
                    # inside a message that has these delimiters as its own
                    style = (n // len(SLOTS)) % 3
                    if style == 2:
                        msg = Message("ADT_A01", version=v, encoding_chars=dict(ecd))
                        seg = msg.pid
                        seg.pid_1 = "1"
                    path = [a for a in slot if a]
                    x = seg
                    for a in path[:-1]:
                        x = getattr(x, a)
                    if style == 0:
                        getattr(x, path[-1]).value = L.ST(val)
                    else:
                        setattr(x, path[-1], L.ST(val))
                seg.pid_24 = "z"
                texts.append(seg.to_er7(ecd))
            e["seg"] = cps(texts[0])
            e["inert"] = cps(texts[1])
            e["reparsed"] = cps(parse_segment(texts[0], version=v, encoding_chars=ecd).to_er7(ecd))
            e["outcome"] = "ok"
        except Exception as ex:
            e["outcome"] = exc_name(ex)
        out.append(e)
    return out


def enumerate_roles(maxlen, alphabet):
    for n in range(0, maxlen + 1):
        for t in itertools.product(alphabet, repeat=n):
            yield list(t)


def signature(e, clause):
    sig = {"clause": clause, "k": e["k"], "fam": e["fam"], "roles": e["roles"], "outcome": e["outcome"], "highlighted": bool(e.get("hl"))}
    if e["k"] == "leaf":
        sig["cls"] = e["cls"]
    return sig


def model_check(ctx):
    maxlen = 5 if ctx.tier == "quick" else 6
    import os
    for fam in (25, 27):
        cfg = os.path.join(tlc.SPEC_DIR, "_gen_EscMC_%d_%d.cfg" % (fam, os.getpid()))
        with open(cfg, "w") as f:
            f.write("CONSTANTS\n MaxLen = %d\n Fam = %d\n UseOld = FALSE\nSPECIFICATION Spec\nCHECK_DEADLOCK FALSE\n"
                    "INVARIANT PropertyHolds\nINVARIANT Idempotent\nINVARIANT FixpointIsStable\n" % (maxlen if fam == 25 else maxlen - 0, fam))
        try:
            r = tlc.run("EscapeMC", os.path.basename(cfg), workers=16, timeout=1500)
        finally:
            os.unlink(cfg)
        if r.violated or not r.completed:
            ctx.machinery_failure("EscapeMC fam=%d: reference violates %r\n%s" % (fam, r.violated, r.raw[-1200:]))
        ctx.add_mc(r, "EscapeMC fam=%d len<=%d: EscapeRef satisfies Allowed, Idempotent, FixpointIsStable" % (fam, maxlen))
    r = tlc.run("EscapeMC", "EscapeMC_old.cfg", workers=4, timeout=600)
    if r.violated != "PropertyHolds":
        ctx.machinery_failure("negative control: TLC did not refute the 1.3.x algorithm (violated=%r)" % r.violated)
    ctx.extra["negative_control"] = "EscapeOld refuted by TLC after %d states" % r.distinct


def run(ctx):
    model_check(ctx)
    rnd = random.Random(ctx.seed + 6)
    quick = ctx.tier == "quick"
    classes = distinct_classes()
    full = list(enumerate_roles(4 if quick else 5, ROLES if not quick else [r for r in ROLES if r not in ("lL",)]))
    longer = [[rnd.choice(ROLES) for _ in range(rnd.randint(5, 14))] for _ in range(2000 if quick else 60000)]
    # the multi-character sequences, alone and embedded: \X00\ \X0000\ \X000000\ (hexadecimal data, one to three bytes),
    # \Z00\ is not expressible with the roles; highlighting \H\..\N\ is
    SEQS = [["E", "X", "0", "0", "E"], ["E", "X", "0", "0", "0", "0", "E"], ["E", "X", "0", "0", "0", "0", "0", "0", "E"],
            ["E", "lH", "E", "q", "E", "lS", "E"], ["E", "X", "0", "E"], ["E", "X", "0", "0", "0", "E"]]
    explicit = []
    for sq in SEQS:
        explicit += [sq, ["q"] + sq, sq + ["q"], ["F"] + sq + ["C"], sq + sq, ["E"] + sq, sq + ["E"]]
    longer = explicit + longer
    ecsets = EC_SETS[:3] if quick else EC_SETS
    jobs = []
    for key, (v, name, fam) in sorted(classes.items()):
        for ecs in ecsets:
            if name == "ST":
                strings = full + longer
            else:
                strings = rnd.sample(full, min(len(full), 600 if quick else 6000)) + longer[:200 if quick else 3000]
            for k in range(4):
                jobs.append((v, name, fam, ecs, strings[k::4]))
            if fam == 27:      # the same class with a set that has no truncation character (four-character MSH-2)
                sub = rnd.sample(strings, min(len(strings), 1500 if quick else 20000))
                jobs.append((v, name, fam, ecs, sub, False))
    events = []
    for part in pmap(_leaf_chunk, jobs):
        events.extend(part)
    segjobs = []
    for v in (["2.5", "2.7"] if quick else ["2.3", "2.5", "2.6", "2.7", "2.8.2"]):
        fam = 27 if v >= "2.7" else 25
        for ecs in ecsets:
            strings = rnd.sample(full, min(len(full), 1200 if quick else 12000)) + longer[:300 if quick else 4000]
            for k in range(2):
                segjobs.append((v, fam, ecs, strings[k::2]))
            if fam == 27:
                segjobs.append((v, fam, ecs, strings[:400 if quick else 4000], False))
    for part in pmap(_seg_chunk, segjobs):
        events.extend(part)
    for i, e in enumerate(events):
        e["id"] = i + 1
    ctx.evaluations += len(events)
    failed, trivial = judge(ctx, "EscapeTrace", "EscapeTrace.cfg", events)
    byid = {e["id"]: e for e in events}
    for e in events:
        if e["id"] not in trivial:
            ctx.nontrivial((e["k"], e.get("cls"), e["fam"], e["roles"], tuple(e["ec"])))
    for i, clause in sorted(failed.items()):
        e = byid[i]
        ctx.fail(signature(e, clause), {"event": e, "clause": clause, "in": "".join(chr(c) for c in e["in"])})
    for e in events[:2] + events[-2:]:
        ctx.sample({k: (("".join(chr(c) for c in e[k])) if k in ("in", "out", "seg") else e[k]) for k in e
                    if k in ("k", "cls", "v", "in", "out", "seg", "roles")})
    ctx.exhaustive = False
    ctx.rule = ("all strings up to length %d over the roles %s rendered with %d delimiter sets, plus random longer ones, "
                "through every distinct textual class (ST fully, the others sampled) and through PID segments at field, "
                "component and subcomponent level; non-trivial = the input holds a delimiter or an escape character "
                "(decided by TLC); distinct by (kind, class, family, role string, delimiter set)" %
                (4 if quick else 5, ROLES, len(ecsets)))
    ctx.assumptions += ["multi-character escape sequences recognised as already escaped: \\Xhh..\\, \\Zxx\\, \\Chhhh\\, "
                        "\\Mhhhhhh\\, \\.cmd\\"]
