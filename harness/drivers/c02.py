"""C02 — every defined position is encoded at, and parsed from, its own index.
M: Er7 position law over the bounded document space (Er7MC).  T: every table row of the working tree is
populated through the public API and the observation is judged by Er7Trace!PosVerdict."""
import random
from .. import tables as T
from ..common import cps, pmap, exc_name, judge, import_hl7apy

VAL = "2020"     # valid for every base datatype (DT year, TM HHMM, DTM year, NM, SI, text, TN)
EC = [124, 94, 38, 126, 92, 0]


def _first_leaf_withdrawn(v, dt):
    """a plain text assigned to an element of this complex datatype lands in its first component (subcomponent): is that
    one withdrawn (cardinality 0..0)?  STRICT then refuses the assignment"""
    comps = T.dt_rows(v, dt) or []
    if not comps:
        return False
    c = comps[0]
    if c.get("max") == 0:
        return True
    return bool(c["subs"]) and c["subs"][0].get("max") == 0


def _cases_for_version(args):
    v, tier, seed = args
    rnd = random.Random("%s-%s" % (seed, v))
    cases = []
    hosts = {}   # dt -> (seg, fieldname, i)
    for seg in T.seg_names(v):
        rows = T.seg_rows(v, seg)
        if rows is None:
            cases.append({"kind": "field", "v": v, "seg": seg, "i": 1, "j": 1, "s": 1, "name": seg + "_1",
                          "path": [seg + "_1"]})
            continue
        if not rows:
            cases.append({"kind": "seg", "v": v, "seg": seg, "i": 0, "j": 1, "s": 1, "name": "", "path": []})
        for r in rows:
            if r["name"] in ("MSH_1", "MSH_2"):   # the delimiters themselves: C07's subject
                continue
            cases.append({"kind": "field", "v": v, "seg": seg, "i": r["i"], "j": 1, "s": 1, "name": r["name"],
                          "path": [r["name"]], "wd": r["max"] == 0 or (r["kind"] == "complex" and _first_leaf_withdrawn(v, r["dt"]))})
            if r["kind"] == "complex" and r["dt"] not in hosts and seg != "MSH" and r["max"] != 0:
                hosts[r["dt"]] = (seg, r["name"], r["i"])
        last = rows[-1] if rows else None
        # every field the version's FIELD table defines for this segment is a position of it, whatever the segment row says
        listed = set(r["name"] for r in rows)
        for fname in sorted(x for x in T.lib(v).FIELDS if x.startswith(seg + "_") and x not in listed):
            try:
                n_ = int(fname[len(seg) + 1:])
            except ValueError:
                continue
            cases.append({"kind": "field", "v": v, "seg": seg, "i": n_, "j": 1, "s": 1, "name": fname, "path": [fname], "wd": False})
        if last is not None and last["kind"] == "varies":
            N = 40 if tier == "quick" else 512
            extra = [last["i"] + 1, last["i"] + 2, N] + [rnd.randint(last["i"] + 1, N) for _ in range(3)]
            if tier != "quick":
                extra = range(last["i"] + 1, N + 1, 7)
            for n in sorted(set(extra)):
                nm = "%s_%d" % (seg, n)
                cases.append({"kind": "open", "v": v, "seg": seg, "i": n, "j": 1, "s": 1, "name": nm, "path": [nm]})
    # several positions at once: every defined field of a segment, in table order and in a shuffled order;
    # open-ended segments with mixes of indices whose textual and numeric orders differ
    for seg in T.seg_names(v):
        rows = T.seg_rows(v, seg)
        if not rows or seg == "MSH":
            continue
        idx = [r["i"] for r in rows]
        wdidx = [r["i"] for r in rows if r["max"] == 0 or (r["kind"] == "complex" and _first_leaf_withdrawn(v, r["dt"]))]
        # (withdrawn positions, or a first component that is: STRICT refuses them)
        if not idx:
            continue
        order = list(idx)
        cases.append({"kind": "full", "v": v, "seg": seg, "idx": idx, "order": order, "wdidx": wdidx})
        sh = list(idx)
        rnd.shuffle(sh)
        cases.append({"kind": "full", "v": v, "seg": seg, "idx": idx, "order": sh, "wdidx": wdidx})
        if rows[-1]["kind"] == "varies":
            last = rows[-1]["i"]
            for extra in ([last + 1, last + 8], [last + 9, last + 10, last + 11], [last + 2, last + 100], [last + 1, last + 2, last + 3]):
                ii = [rows[0]["i"]] + extra
                oo = list(ii)
                rnd.shuffle(oo)
                cases.append({"kind": "full", "v": v, "seg": seg, "idx": ii, "order": oo})
    for z in ("ZIN", "Z9X"):
        for ii in ([2, 10], [1, 9, 10, 11], [5, 12], [9, 100], [1, 2, 3, 4, 5, 6, 7, 8, 9, 10, 11, 12], [3, 20, 100, 101]):
            for rev in (False, True):
                oo = list(reversed(ii)) if rev else list(ii)
                cases.append({"kind": "full", "v": v, "seg": z, "idx": ii, "order": oo})
    # Z segments
    N = 40 if tier == "quick" else 512
    for z in ("ZZZ", "Z01"):
        idxs = list(range(1, N + 1)) if tier != "quick" or z == "ZZZ" else [1, 2, 9, 10, 11, 40]
        for n in idxs:
            nm = "%s_%d" % (z, n)
            cases.append({"kind": "zseg", "v": v, "seg": z, "i": n, "j": 1, "s": 1, "name": nm, "path": [nm]})
    # complex datatypes: components and subcomponents
    for dt in T.complex_datatypes(v):
        rows = T.dt_rows(v, dt)
        if dt in hosts:
            seg, fname, i = hosts[dt]
            host = {"seg": seg, "fname": fname, "i": i, "zdt": None}
        else:
            host = {"seg": "ZZZ", "fname": "ZZZ_3", "i": 3, "zdt": dt}
        for r in rows:
            cases.append({"kind": "comp", "v": v, "seg": host["seg"], "i": host["i"], "j": r["j"], "s": 1,
                          "dt": dt, "zdt": host["zdt"], "name": host["fname"], "path": [host["fname"], r["name"]],
                          "wd": r.get("max") == 0 or (bool(r["subs"]) and r["subs"][0].get("max") == 0)})
            for sr in r["subs"]:
                cases.append({"kind": "sub", "v": v, "seg": host["seg"], "i": host["i"], "j": r["j"], "s": sr["k"],
                              "dt": dt, "zdt": host["zdt"], "name": host["fname"],
                              "path": [host["fname"], r["name"], sr["name"]], "wd": r.get("max") == 0 or sr.get("max") == 0})
    return cases


def observe(case, level=None):
    import_hl7apy()
    from hl7apy.core import Segment, Field
    from hl7apy.parser import parse_segment
    from hl7apy.consts import VALIDATION_LEVEL as VL
    lvl = VL.STRICT if level == "S" else VL.TOLERANT
    e = dict(case)
    e.update({"k": "pos", "ec": EC, "val": cps(VAL), "enc": [], "pnames": [], "pread": [], "lvl": level or "T"})
    stage = "new"
    try:
        seg = Segment(case["seg"], version=case["v"], validation_level=lvl)
        stage = "set"
        path = [p.lower() for p in case["path"]]
        if case.get("zdt"):
            f = Field(case["name"], datatype=case["zdt"], version=case["v"], validation_level=lvl)
            seg.add(f)
        if len(path) == 0:
            pass
        elif len(path) == 1:
            setattr(seg, path[0], VAL)
        elif len(path) == 2:
            setattr(getattr(seg, path[0]), path[1], VAL)
        else:
            setattr(getattr(getattr(seg, path[0]), path[1]), path[2], VAL)
        stage = "enc"
        enc = seg.to_er7()
        e["enc"] = cps(enc)
        stage = "parse"
        # (a Z field re-parses as ST whatever datatype it was given: its components are read back at TOLERANT level)
        plvl = VL.TOLERANT if case.get("zdt") else lvl
        if case.get("route") == "value":
            p = Segment(case["seg"], version=case["v"], validation_level=plvl)
            p.value = enc
        else:
            p = parse_segment(enc, version=case["v"], validation_level=plvl)
        e["pnames"] = [c.name if c.name is not None else "?" for c in p.children if c.to_er7() != ""]
        stage = "read"
        if case.get("zdt"):
            # a Z field re-parses as ST: read through the generic traversal
            e["pread"] = cps(getattr(p, path[0]).to_er7().replace("^", "").replace("&", ""))
        elif len(path) == 1:
            e["pread"] = cps(getattr(p, path[0]).to_er7())
        elif len(path) == 2:
            e["pread"] = cps(getattr(getattr(p, path[0]), path[1]).to_er7())
        elif len(path) == 3:
            e["pread"] = cps(getattr(getattr(getattr(p, path[0]), path[1]), path[2]).to_er7())
        e["outcome"] = "ok"
    except Exception as ex:  # the verdict on exceptions is TLC's ("raised")
        e["outcome"] = "%s@%s" % (exc_name(ex), stage)
    return e


def observe_full(case, level=None):
    """several fields of one segment populated at once: idx -> distinct values"""
    import_hl7apy()
    from hl7apy.core import Segment
    from hl7apy.parser import parse_segment
    from hl7apy.consts import VALIDATION_LEVEL as VL
    lvl = VL.STRICT if level == "S" else VL.TOLERANT
    e = dict(case)
    vals = ["%d" % (1000 + i) for i in case["idx"]]
    e.update({"k": "full", "ec": EC, "vals": [cps(v) for v in vals], "enc": [], "preads": [], "lvl": level or "T",
              "i": case["idx"][0] if case["idx"] else 0, "j": 1, "s": 1, "name": "", "path": []})
    stage = "new"
    try:
        seg = Segment(case["seg"], version=case["v"], validation_level=lvl)
        stage = "set"
        for i, v in zip(case["order"], [vals[case["idx"].index(i)] for i in case["order"]]):
            setattr(seg, "%s_%d" % (case["seg"].lower(), i), v)
        stage = "enc"
        enc = seg.to_er7()
        e["enc"] = cps(enc)
        stage = "parse"
        p = parse_segment(enc, version=case["v"], validation_level=lvl)
        stage = "read"
        e["preads"] = [cps(getattr(p, "%s_%d" % (case["seg"].lower(), i)).to_er7().split("^")[0].split("&")[0]) for i in case["idx"]]
        e["outcome"] = "ok"
    except Exception as ex:
        e["outcome"] = "%s@%s" % (exc_name(ex), stage)
    return e


def _noise(v):
    """calls on throw-away elements that must not matter to anything else: datatype overrides, refused assignments"""
    import_hl7apy()
    from hl7apy.core import Segment, Field, Component
    for fn in (lambda: setattr(Component("CX_4", version=v), "datatype", "CE"),
               lambda: setattr(Component("XPN_1", version=v), "datatype", "CE"),
               lambda: setattr(Field("PID_3", version=v), "datatype", "CE"),
               lambda: Field("PID_5", datatype="CX", version=v),
               lambda: setattr(Field("OBX_5", version=v), "datatype", "CX"),
               lambda: setattr(Segment("PID", version=v), "pid_99", "x"),
               lambda: Segment("ZZZ", version=v).add_field("ZZZ_400")):
        try:
            fn()
        except Exception:
            pass


_NOISED = set()


def _observe_chunk(args):
    cases, level = args
    out = []
    for v_ in sorted(set(c["v"] for c in cases)):
        if v_ not in _NOISED:
            _NOISED.add(v_)
            _noise(v_)
    for n, c in enumerate(cases):
        if level == "S":
            # a withdrawn position (cardinality 0..0) is rightly refused under STRICT: the position law is about the
            # positions the level lets one use
            if c.get("wd"):
                continue
            if c["kind"] == "full" and c.get("wdidx"):
                c = dict(c)
                c["idx"] = [i for i in c["idx"] if i not in c["wdidx"]]
                c["order"] = [i for i in c["order"] if i not in c["wdidx"]]
                if not c["idx"]:
                    continue
        out.append(observe_full(c, level) if c["kind"] == "full" else observe(c, level))
        # the second way of reading a segment's text: Segment(name).value = text (every MSH case, every seventh other)
        if c["kind"] != "full" and (c["seg"] == "MSH" or n % 7 == 0):
            c2 = dict(c)
            c2["route"] = "value"
            out.append(observe(c2, level))
    return out


def obs_index(e):
    """Diagnostic only (signature of a failing verdict): where the value actually landed."""
    txt = "".join(chr(c) for c in e["enc"])
    parts = txt.split("|")
    for n, p in enumerate(parts):
        if VAL in p:
            comps = p.split("~")[0].split("^")
            for cj, c in enumerate(comps):
                if VAL in c:
                    subs = c.split("&")
                    for sk, s in enumerate(subs):
                        if VAL in s:
                            return "%d.%d.%d" % (n + (1 if parts[0] == "MSH" else 0), cj + 1, sk + 1)
    return "none"


def signature(e, clause):
    sig = {"kind": e["kind"], "v": e["v"], "seg": e["seg"], "vseg": e["v"] + "/" + e["seg"], "lvl": e["lvl"], "route": e.get("route", "parse_segment"),
           "clause": clause}
    if e["kind"] in ("comp", "sub"):
        sig["dt"] = e["dt"]
    if clause == "raised":
        sig["exc"] = e["outcome"]
        if e["outcome"].endswith("@new"):
            return sig
    if e["kind"] == "full":
        sig["idx"] = ",".join(str(i) for i in e["idx"])[:60]
        sig["order"] = "table" if e["order"] == e["idx"] else "other"
        return sig
    sig["pos"] = "%d.%d.%d" % (e["i"], e["j"], e["s"])
    if clause == "position":
        sig["at"] = "%s>%s" % (sig["pos"], obs_index(e))
    if clause in ("parsed_name", "parsed_value"):
        sig["got"] = ",".join(e["pnames"]) + "=" + "".join(chr(c) for c in e["pread"])
    return sig


def run(ctx):
    from . import er7mc
    er7mc.model_check(ctx)
    vs = T.versions()
    allcases = []
    for cs in pmap(_cases_for_version, [(v, ctx.tier, ctx.seed) for v in vs]):
        allcases.extend(cs)
    levels = ["T"] if ctx.tier == "quick" else ["T", "S"]
    events = []
    n = 0
    for lv in levels:
        chunks = [(allcases[k::32], lv) for k in range(32)]
        for part in pmap(_observe_chunk, chunks):
            for e in part:
                n += 1
                e["id"] = n
                events.append(e)
    failed, trivial = judge(ctx, "Er7Trace", "Er7Trace.cfg", events)
    ctx.evaluations += len(events)
    byid = {e["id"]: e for e in events}
    for e in events:
        if e["id"] not in trivial:
            ctx.nontrivial((e["kind"], e["v"], e["seg"], e["i"], e["j"], e["s"], e.get("dt"), tuple(e.get("order", []))))
    for i, clause in sorted(failed.items()):
        e = byid[i]
        ctx.fail(signature(e, clause), {"case": {k: e[k] for k in e if k not in ("ec",)}, "clause": clause,
                                        "enc": "".join(chr(c) for c in e["enc"])})
    for e in events[:3] + events[-2:]:
        ctx.sample({"case": e["path"], "v": e["v"], "seg": e["seg"], "enc": "".join(chr(c) for c in e["enc"]),
                    "outcome": e["outcome"]})
    ctx.exhaustive = True
    ctx.rule = ("one event per (version, segment, field) table row, per (version, complex datatype, component[, "
                "subcomponent]) row hosted in a field of that datatype, and per open-ended index of Z-/varies-"
                "terminated segments; non-trivial = TLC evaluated the premise TRUE; distinct by (kind, version, "
                "segment, i, j, k, datatype)")
    ctx.assumptions += ["the value '2020' is lexically valid for every base datatype, so acceptance never depends on it",
                        "TLC's Er7!ParseSeg is the reference reading of the encoded text"]
