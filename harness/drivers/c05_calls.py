"""C05 — single API calls (constructors with names / datatype overrides / values, children beyond the defined ones of
open-ended segments, assignment of objects built elsewhere, assignment of whole child lists) made at both levels.
Every call is a closed scenario `fn(level) -> element`; the observations are judged by StrictnessTrace (TLC)."""
import itertools

from ..common import cps, import_hl7apy, exc_name


def scenarios(v):
    import_hl7apy()
    from hl7apy.core import Message, Group, Segment, Field, Component, SubComponent
    from hl7apy.parser import parse_segment
    from hl7apy.factories import datatype_factory
    out = []

    def add(label, fn, dts=("", "")):
        out.append((label, fn, dts))

    def official(cls, name):
        """the datatype the version's tables give the named field / component / subcomponent ('' if they give none)"""
        from .. import tables as T
        if not name or "_" not in name:
            return ""
        owner = name.rsplit("_", 1)[0]
        if cls is Field:
            rows = T.seg_rows(v, owner) if owner in T.seg_names(v) else None
            return next((r["dt"] for r in (rows or []) if r["name"] == name), "")
        st = T.lib(v).DATATYPES_STRUCTS.get(owner)
        return next((ref[2] for (n_, ref, _c, _k) in (st or ()) if n_ == name), "")

    # A. constructors: name x datatype override x value
    def ctor(cls, name, dt, val):
        def fn(lvl):
            kw = {"version": v, "validation_level": lvl}
            if dt is not None:
                kw["datatype"] = dt
            el = cls(name, **kw) if name is not None else cls(**kw)
            if val is not None:
                el.value = val
            return el
        return fn
    for name, dt, val in itertools.product(("PID_3", "PID_8", "PID_7", "OBX_5", "ZIN_1", "PID_99", None),
                                           (None, "ST", "NM", "CX", "IS", "varies"), (None, "x", "1^2", "1^2&3")):
        add("ctor:Field:%s:%s:%s" % (name, dt, val), ctor(Field, name, dt, val), (dt or "", official(Field, name)))
    for name, dt, val in itertools.product(("CX_1", "CX_4", "XPN_1", "VARIES_1", "CX_99", None),
                                           (None, "ST", "HD", "CE", "NM", "varies"), (None, "a", "a&b", "12")):
        add("ctor:Component:%s:%s:%s" % (name, dt, val), ctor(Component, name, dt, val), (dt or "", official(Component, name)))
    for name, dt, val in itertools.product(("HD_1", "HD_2", "VARIES_1", "HD_99", None), (None, "ST", "NM", "IS", "varies"),
                                           (None, "x", "12", "x" * 300)):
        add("ctor:SubComponent:%s:%s:%s" % (name, dt, val), ctor(SubComponent, name, dt, val), (dt or "", official(SubComponent, name)))
    for name in ("PID", "QPD", "ZIN", "XXX", "MSH", None):
        add("ctor:Segment:%s" % name, (lambda n: lambda lvl: Segment(n, version=v, validation_level=lvl))(name))
    for name in ("ADT_A01_INSURANCE", "ADT_A01", "NOPE", None):
        add("ctor:Group:%s" % name, (lambda n: lambda lvl: Group(n, version=v, validation_level=lvl))(name))
    for name in ("ADT_A01", "ACK", "XXX_Y99", "ZZZ_Z01", None):
        def mk_message(n):
            def fn(lvl):
                m = Message(n, version=v, validation_level=lvl)
                m.msh.msh_7 = "20200101"        # (the constructor stamps the current time: the two levels are built at different moments)
                return m
            return fn
        add("ctor:Message:%s" % name, mk_message(name))

    # B. fields beyond the defined ones (open-ended: last field of type varies, Z-segments; closed: PID)
    def beyond(seg, idx, how):
        def fn(lvl):
            s = Segment(seg, version=v, validation_level=lvl)
            name = "%s_%d" % (seg, idx)
            if how == "attr":
                setattr(s, name.lower(), "x")
            elif how == "add_field":
                s.add_field(name).value = "x"
            else:
                s.add(Field(name, version=v, validation_level=lvl))
            return s
        return fn
    for seg, idxs in (("QPD", (3, 4, 10)), ("RDT", (1, 2, 7)), ("ZIN", (1, 30)), ("PID", (39, 40, 60)), ("OBX", (5, 30))):
        for idx in idxs:
            for how in ("attr", "add_field", "add"):
                add("beyond:%s_%d:%s" % (seg, idx, how), beyond(seg, idx, how))
    for text in ("QPD|a|b|c|d|e", "RDT|a|b", "ZIN|a|b|c", "PID|" + "|" * 45 + "x", "OBX|1|ST|a||v|||||||||||||||||||||||x"):
        add("beyond:parse:%s" % text[:12], (lambda t: lambda lvl: parse_segment(t, version=v, validation_level=lvl))(text))

    # C. objects built elsewhere (at the library's default level) assigned into an element of the given level
    def put_dt(field, dt, val, how):
        def fn(lvl):
            s = Segment(field.split("_")[0], version=v, validation_level=lvl)
            obj = datatype_factory(dt, val, v, 2)       # built TOLERANT, like SI(12345) by hand
            if how == "attr":
                setattr(s, field.lower(), obj)
            else:
                f = s.add_field(field)
                f.value = obj
            return s
        return fn
    for field, dt, val in (("PID_1", "SI", "12345"), ("PID_1", "SI", "1"), ("PID_1", "ST", "abc"), ("PID_8", "IS", "F"),
                           ("PID_8", "ST", "x" * 300), ("PID_8", "NM", "1"), ("OBX_1", "SI", "99999"), ("PID_7", "DT", "2020"),
                           ("EVN_1", "ID", "x" * 30), ("PID_1", "NM", "12")):
        for how in ("attr", "value"):
            add("put_dt:%s:%s:%s:%s" % (field, dt, val[:8], how), put_dt(field, dt, val, how))

    def put_el(how, child_lvl_same, override):
        def fn(lvl):
            s = Segment("PID", version=v, validation_level=lvl)
            kw = {"version": v, "validation_level": lvl if child_lvl_same else 3 - lvl}
            if override:
                kw["datatype"] = "NM"
            f = Field("PID_8", **kw)
            f.value = "1"
            if how == "attr":
                s.pid_8 = f
            elif how == "add":
                s.add(f)
            elif how == "index":
                s.pid_8[0] = f
            elif how == "parent":
                f.parent = s
            elif how == "insert":
                s.children.insert(0, f)
            elif how == "children_list":
                s.children = [f]
            return s
        return fn
    for how in ("attr", "add", "index", "parent", "insert", "children_list"):
        for same in (True, False):
            for ov in (False, True):
                add("put_el:%s:%s:%s" % (how, "same" if same else "other", "override" if ov else "plain"), put_el(how, same, ov))

    # C2. an element without a name (unknown to every structure) handed to a segment / field of the given level
    def put_unknown(parent_kind, dt, how):
        def fn(lvl):
            if parent_kind == "segment":
                p = Segment("PID", version=v, validation_level=lvl)
                ch = Field(datatype=dt, version=v, validation_level=lvl)
            else:
                p = Field("PID_3", version=v, validation_level=lvl)
                ch = Component(datatype=dt, version=v, validation_level=lvl)
            if dt != "varies":
                ch.value = "x"
            if how == "add":
                p.add(ch)
            elif how == "append":
                p.children.append(ch)
            elif how == "insert":
                p.children.insert(0, ch)
            elif how == "parent":
                ch.parent = p
            elif how == "children":
                p.children = [ch]
            return p
        return fn
    for pk in ("segment", "field"):
        for dt in ("varies", "ST", "NM"):
            for how in ("add", "append", "insert", "parent", "children"):
                add("put_unknown:%s:%s:%s" % (pk, dt, how), put_unknown(pk, dt, how))

    # C3. a NAMED child that belongs to another structure (same or other base datatype) handed to a parent: STRICT lets no
    #     foreign child in ("foreign" is decided from the tables: the name is not among the parent's children)
    def put_foreign(pcls, pname, ccls, cname, how):
        def fn(lvl):
            p = pcls(pname, version=v, validation_level=lvl)
            if how == "setattr":
                setattr(p, cname.lower(), "x")
                return p
            ch = ccls(cname, version=v, validation_level=lvl)
            try:
                ch.value = "x"
            except Exception:
                pass
            if how == "add":
                p.add(ch)
            elif how == "append":
                p.children.append(ch)
            elif how == "insert":
                p.children.insert(0, ch)
            elif how == "parent":
                ch.parent = p
            elif how == "children":
                p.children = [ch]
            return p
        return fn
    for (pcls, pname, ccls, cname) in ((Component, "CX_1", SubComponent, "FN_1"), (Component, "CX_1", SubComponent, "HD_1"),
                                       (Component, "CX_4", SubComponent, "FN_1"), (Field, "PID_3", Component, "XPN_1"),
                                       (Field, "PID_8", Component, "CX_1"), (Segment, "PID", Field, "NK1_2"),
                                       (Component, "XPN_1", SubComponent, "HD_1")):
        for how in ("add", "append", "insert", "parent", "children", "setattr"):
            add("put_foreign:%s:%s:%s" % (pname, cname, how), put_foreign(pcls, pname, ccls, cname, how), ("", "", True))

    # D. whole child lists
    def child_list(kind):
        def fn(lvl):
            s = Segment("PID", version=v, validation_level=lvl)
            o = Segment("PID", version=v, validation_level=2)
            o.pid_8 = "F"
            o.add_field("PID_8").value = "M"
            o.pid_1 = "1"
            if kind == "element_list":
                s.children = o.children
            elif kind == "list":
                s.children = list(o.children)
            elif kind == "tuple_same_level":
                o2 = Segment("PID", version=v, validation_level=lvl)
                o2.pid_1 = "1"
                o2.pid_8 = "F"
                s.children = tuple(o2.children)
            elif kind == "own_list":
                s.pid_1 = "1"
                s.children = s.children
            return s
        return fn
    for kind in ("element_list", "list", "tuple_same_level", "own_list"):
        add("children:%s" % kind, child_list(kind))
    return out


def lockstep(args):
    from .c05 import report
    v, lo, hi = args
    out = []
    for label, fn, dts in scenarios(v)[lo:hi]:
        res = {}
        for name, L in (("s", 1), ("t", 2)):
            try:
                el = fn(L)
                try:
                    enc = cps(el.to_er7())
                except Exception as ex:
                    enc = cps("to_er7 raised " + exc_name(ex))
                # the validator's verdict is compared for elements that have a structure of their own to be checked
                # against (segments, groups, messages); a parentless field / component / subcomponent is no "element
                # accepted into a tree" and validate() on it is not part of the claim
                rep, kinds = report(el) if el.classname in ("Segment", "Group", "Message") else ([], [])
                res[name] = ("ok", enc, rep, kinds)
            except Exception as ex:
                res[name] = (exc_name(ex), [], [], [])
        out.append({"what": "call:" + label.split(":")[0], "conc": v, "out_s": res["s"][0], "out_t": res["t"][0], "enc_s": res["s"][1],
                    "enc_t": res["t"][1], "rep_s": res["s"][2], "rep_t": res["t"][2], "kinds_s": res["s"][3], "step": 0,
                    "detail": [label], "dt_given": dts[0], "dt_official": dts[1], "foreign": bool(len(dts) > 2 and dts[2])})
    return out


def count(v):
    return len(scenarios(v))
