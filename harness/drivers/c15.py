"""C15 — bad input fails with the library's exceptions, never with a crash.

M: HeaderMC — every abstract header shape (prefix x separators x number of fields x version) through the
   transcription of _split_msh with total accessors: no "Crash"; the unguarded 1.3.x transcription must be refuted.
R: TLC's mutation plans (depth <= 2 over 13 mutation operators x 6 arguments) applied to seed messages, plus every
   truncation point and token junk.   T: HeaderTrace (TLC) decides the outcome classes of parse_message,
   get_message_type, to_er7 and validate for each input; conformance of the transcription is reported as drift."""
import random

from .. import tlc
from ..common import cps, pmap, judge, import_hl7apy, exc_name

SEEDS = [
    "MSH|^~\\&|SND|FAC|RCV|FAC|20200101120000||ADT^A01^ADT_A01|MSG001|P|2.5\rEVN||20200101\rPID|1||123^^^HOSP^MR~456^^^X||DOE^JOHN^A||19700101|M|||1 ST^^TOWN^ST^12345\rNK1|1|DOE^JANE|SPO\rPV1|1|I|W^1^2||||1234^DOC^A",
    "MSH|^~\\&|LAB||||20200101||OML^O33^OML_O33|X1|P|2.5\rPID|1||5^^^Z||A^B\rSPM|1|S1&A^S2&B||BLD\rORC|NW|O1\rTQ1|1||||||20200101\rOBR|1|O1||GLU^Glucose^L",
    "MSH|^~\\&|A|B|C|D|199901011200||ORU^R01|7|P|2.3\rPID|1||9||X^Y\rOBR|1|||T^Test\rOBX|1|ST|C^Code||value with \\F\\ escape and \\.br\\ break\rOBX|2|NM|N^Num||12.5",
    "MSH|^~\\&#|A|B|C|D|20200101||ADT^A01^ADT_A01|8|P|2.7\rEVN||20200101\rPID|1||12^^^X||DOE^JOHN\rPV1|1|I",
    "MSH!@%/$!A!B!C!D!20200101!!ADT@A01@ADT_A01!9!P!2.6\rEVN!!20200101\rPID!1!!12@@@X%13!!DOE@JOHN$Z\rPV1!1!I",
    "MSH|^~\\&|A|B|C|D|20200101||ADT^A08|10|P|2.1\rEVN|A08|20200101\rPID|1||12||DOE^JOHN\rZZZ|a|b^c|d~e",
    "MSH|^~\\&|A|B|C|D|20200101||QBP^Q22^QBP_Q21|11|P|2.5\rQPD|Q22^Find Candidates|Q1|@PID.5.1^DOE~@PID.8^M|extra|more\rRCP|I|10^RD",
]


def nth(text, ch, k):
    idx = [i for i, c in enumerate(text) if c == ch]
    return idx[min(k, len(idx) - 1)] if idx else -1


def apply_op(text, op, a, rnd):
    lines = text.split("\r")
    f = text[3:4] or "|"
    if op == "truncate":
        pos = [3, 5, 9, len(lines[0]) // 2, len(lines[0]), len(text) - len(lines[-1]) // 2 - 1][a]
        return text[:max(0, pos)]
    if op == "delete_delim":
        ch, k = [(f, 0), ("^", 0), ("\r", 0), (f, 999), ("&", 0), ("~", 0)][a]
        i = nth(text, ch, k)
        return text if i < 0 else text[:i] + text[i + 1:]
    if op == "dup_delim":
        ch, k = [(f, 0), ("^", 0), ("\r", 1), (f, 7), ("&", 0), ("\\", 0)][a]
        i = nth(text, ch, k)
        return text if i < 0 else text[:i] + ch + text[i:]
    if op == "set_seps":
        hf = lines[0].split(f)
        if len(hf) > 1:
            hf[1] = ["", "^", "^~\\", "^~\\&#", "^~\\&#$", "^^\\&"][a]
        return "\r".join([f.join(hf)] + lines[1:])
    if op == "drop_fields":
        hf = lines[0].split(f)
        return "\r".join([f.join(hf[:[1, 2, 3, 8, 9, 11][a]])] + lines[1:])
    if op == "set_version":
        hf = lines[0].split(f)
        if len(hf) > 11:
            hf[11] = ["", "2.5", "2.7", "9.9", "2", "2.5^X^Y"][a]
        return "\r".join([f.join(hf)] + lines[1:])
    if op == "garble_name":
        if len(lines) > 1:
            k = 1 + (a % (len(lines) - 1))
            lines[k] = ["P", "PI", "pid", "ZZZ", "123", "PIDX"][a] + lines[k][3:]
        return "\r".join(lines)
    if op == "blank_line":
        return ["\r" + text, text.replace("\r", "\r\r", 1), text + "\r\r\r", " \t" + text, text.replace("\r", "\n"),
                text.replace("\r", "\r\n")][a]
    if op == "junk":
        j = ["\x00", "\\", f * 5, "^^^^&&&&", "é中", "\t \t"][a]
        pos = rnd.randint(0, len(text))
        return text[:pos] + j + text[pos:]
    if op == "swap_lines":
        if len(lines) > 1:
            k = 1 + (a % (len(lines) - 1))
            lines[0], lines[k] = lines[k], lines[0]
        return "\r".join(lines)
    if op == "strip_msh9":
        hf = lines[0].split(f)
        if len(hf) > 8:
            hf[8] = ["", "ADT", "ADT^A01", "^^", "FOO^BAR^FOO_BAR", "ADT^A01^ADT_A02"][a]
        return "\r".join([f.join(hf)] + lines[1:])
    if op == "lowercase":
        k = a % len(lines)
        lines[k] = lines[k].lower()
        return "\r".join(lines)
    if op == "add_fields":
        k = a % len(lines)
        lines[k] += [f * 50, "^" * 30, "~" * 20, "&" * 20, f + "x" * 70000, (f + "x") * 300][a]
        return "\r".join(lines)
    return text


def observe(text, lvl, fg):
    import_hl7apy()
    from hl7apy.parser import parse_message, get_message_type
    from hl7apy.exceptions import HL7apyException
    L = 1 if lvl == "S" else 2
    hdr = text.split("\r", 1)[0][:400]
    e = {"lvl": lvl, "fg": fg, "hdr": cps(hdr), "gmt": "ok", "gmt_lib": True, "parse": "ok", "parse_lib": True, "er7": "-",
         "val": "-", "in": text if len(text) < 400 else text[:380] + "...(%d chars)" % len(text)}
    try:
        get_message_type(text)
    except Exception as ex:
        e["gmt"] = exc_name(ex)
        e["gmt_lib"] = isinstance(ex, HL7apyException)
    try:
        m = parse_message(text, validation_level=L, find_groups=fg)
    except Exception as ex:
        e["parse"] = exc_name(ex)
        e["parse_lib"] = isinstance(ex, HL7apyException)
        return e
    try:
        m.to_er7()
        e["er7"] = "ok"
    except Exception as ex:
        e["er7"] = exc_name(ex)
    try:
        r = m.validate(return_errors=True)
        e["val"] = "report" if hasattr(r, "errors") else "other"
    except Exception as ex:
        e["val"] = exc_name(ex)
    return e


def _chunk(items):
    return [observe(*it) for it in items]


def signature(e, clause):
    sig = {"clause": clause, "lvl": e["lvl"], "fg": e["fg"]}
    if "get_message_type" in clause:
        sig["exc"] = e["gmt"]
    elif "parse_message" in clause:
        sig["exc"] = e["parse"]
    elif "to_er7" in clause:
        sig["exc"] = e["er7"]
    else:
        sig["exc"] = e["val"]
    sig["plan"] = e.get("plan", "")
    return sig


def run(ctx):
    quick = ctx.tier == "quick"
    rnd = random.Random(ctx.seed + 15)
    r = tlc.run("HeaderMC", "HeaderMC.cfg", workers=8, timeout=600)
    if r.violated or not r.completed:
        ctx.machinery_failure("HeaderMC: %r\n%s" % (r.violated, r.raw[-1200:]))
    ctx.add_mc(r, "HeaderMC: every header shape through the guarded transcription of _split_msh: NoCrash, Total")
    rn = tlc.run("HeaderMC", "HeaderMC_neg.cfg", workers=2, timeout=600)
    if rn.violated != "NoCrash":
        ctx.machinery_failure("negative control: the unguarded transcription must reach Crash (got %r)" % rn.violated)
    ctx.extra["negative_control"] = "unguarded _split_msh transcription refuted (NoCrash)"
    rp, states = tlc.dump_states("HeaderMC", "HeaderMC_plans.cfg", workers=4, timeout=900)
    ctx.add_mc(rp, "HeaderMC plans: all mutation plans of depth <= 2")
    plans = [[(x[0], x[1]) for x in s["plan"]] for s in states]
    ctx.extra["mutation_plans"] = len(plans)
    texts = {}
    for si, seed in enumerate(SEEDS):
        texts.setdefault(seed, "seed%d" % si)
        sel = plans if not quick else [p for p in plans if len(p) <= 1] + rnd.sample([p for p in plans if len(p) == 2], 500)
        for p in sel:
            t = seed
            for (op, a) in p:
                t = apply_op(t, op, a, rnd)
            texts.setdefault(t, "seed%d:" % si + "+".join("%s(%d)" % x for x in p))
        step = 1 if not quick else max(1, len(seed) // 60)
        for cut in range(0, len(seed), step):
            texts.setdefault(seed[:cut], "seed%d:cut@%d" % (si, cut))
    # every segment name every version declares, inside a message of that version (tables can be malformed)
    from .. import tables as T
    for v in T.versions():
        segs = [x for x in T.seg_names(v) if len(x) == 3 and x != "MSH"]
        typ = "ADT^A01" if v < "2.3.1" else "ADT^A01^ADT_A01"
        for k in range(0, len(segs), 12):
            body = "\r".join("%s|1|2^3&4~5|20200101" % x for x in segs[k:k + 12])
            texts.setdefault("MSH|^~\\&|A|B|C|D|20200101||%s|1|P|%s\r%s" % (typ, v, body), "allsegments:%s:%d" % (v, k))
            # ... and with a value in EVERY field the version defines for them (every row of the field tables is used)
            body = "\r".join("|".join([x] + ["1"] * max([r["i"] for r in (T.seg_rows(v, x) or [{"i": 3}])] + [1])) for x in segs[k:k + 12])
            texts.setdefault("MSH|^~\\&|A|B|C|D|20200101||%s|1|P|%s\r%s" % (typ, v, body), "allfields:%s:%d" % (v, k))
    # instances of real message structures (required only, every child, segments repeated, groups repeated ...): the
    # parser's group search and the validator's descent see every structure, every withdrawn segment in its place
    from . import groups
    for v in T.versions():
        sids = T.message_names(v)

        def choice_groups(kids, anc=()):
            for k in kids:
                if k["kind"] == "GRP":
                    if k.get("content") == "choice":
                        yield anc + (k,)
                    for x in choice_groups(k["kids"], anc + (k,)):
                        yield x
        with_choice = []
        for sid in sids:
            try:
                if any(True for _ in choice_groups(T.structure(v, sid)["kids"])):
                    with_choice.append(sid)
            except Exception:
                pass
        if quick:
            sids = rnd.sample(sids, min(len(sids), 30)) + rnd.sample(with_choice, min(len(with_choice), 6))
        for sid in sids:
            try:
                st = T.structure(v, sid)
            except Exception:
                continue
            if any(n[1] == "SEG" and len(n[0]) != 3 for n in groups.flatten_structure(st)):
                continue
            # a group of alternatives (choice): each alternative twice in a row, and two different ones
            for chain in list(choice_groups(st["kids"]))[:3]:
                g = chain[-1]
                alts = [k["name"] for k in g["kids"] if k["kind"] == "SEG"]
                base = groups.gen_with(st["kids"], set(id(x) for x in chain), {}, False)
                pos = next((i for i, n_ in enumerate(base) if n_ in alts), len(base))
                base = [n_ for n_ in base if n_ not in alts]
                for pick in [[a, a] for a in alts[:4]] + ([[alts[0], alts[1]]] if len(alts) > 1 else []):
                    names_ = base[:pos] + pick + base[pos:]
                    body = "\r".join(groups.seg_text(x, k_ + 1, v) for k_, x in enumerate(names_[1:]))
                    texts.setdefault(groups.msh(v, sid) + "\r" + body, "structure:%s:%s:choice:%s" % (v, sid, "+".join(pick)))
            for (mode, names_, conf) in groups.instances(st, rnd, True)[:5 if quick else 12]:
                body = "\r".join(("%s|1|2^3&4~5|20200101" % x) if k_ % 2 else groups.seg_text(x, k_ + 1, v) for k_, x in enumerate(names_[1:]))
                texts.setdefault(groups.msh(v, sid) + "\r" + body, "structure:%s:%s:%s" % (v, sid, mode))
    # a second header-like line, segment names in lower / mixed case, lines made of delimiters only
    hdr = "MSH|^~\\&|A|B|C|D|20200101||ADT^A01^ADT_A01|1|P|2.5"
    for k_, line in enumerate(["MSH~~", "MSH^", "MSH|", "MSH||", "MSH", "msh|^~\\&|x", "Msh|^~\\&|x|y", "pid|1||5", "Pid|1", "MSH|x|y", "MSH&&",
                               "MSH\\", "MSH~", "msh", "evn||2020", "|||", "^^^", "~~~", "&&&", "PID", "PID|", "PID~~", "ZZZ", "zzz|a", "MSH|^~\\&",
                               "MSH|^~\\&|", "MSH#"]):
        texts.setdefault(hdr + "\r" + line, "second_line:%d" % k_)
        texts.setdefault(hdr + "\rPID|1\r" + line + "\rPV1|1", "middle_line:%d" % k_)
        texts.setdefault(line + "\r" + hdr, "first_line:%d" % k_)
    toks = ["MSH", "|", "^~\\&", "^~\\&#", "\r", "PID", "ADT^A01", "2.5", "2.7", "x", "&", "~", "\\", " ", "\n", "ZZZ|a", "MSH|^~\\&|"]
    for _ in range(1500 if quick else 40000):
        t = "".join(rnd.choice(toks) for _ in range(rnd.randint(1, 8)))
        texts.setdefault(t, "junk")
    items = []
    names = {}
    for t, nm in texts.items():
        for lvl in ("T", "S"):
            for fg in ((True, False) if nm != "junk" or rnd.random() < 0.3 else (True,)):
                items.append((t, lvl, fg))
                names[(t, lvl, fg)] = nm
    rnd.shuffle(items)
    events = []
    for part in pmap(_chunk, [items[k::32] for k in range(32)]):
        events.extend(part)
    for i, (e, it) in enumerate(zip(events, [x for k in range(32) for x in items[k::32]])):
        e["id"] = i + 1
        e["plan"] = names.get(it, "")
    ctx.evaluations += len(events)
    send = [{k: e[k] for k in ("id", "lvl", "hdr", "gmt", "gmt_lib", "parse", "parse_lib", "er7", "val")} for e in events]
    failed, _ = judge(ctx, "HeaderTrace", "HeaderTrace.cfg", send)
    byid = {e["id"]: e for e in events}
    outcomes = {}
    for e in events:
        ctx.nontrivial((e["lvl"], e["fg"], e["in"][:200], len(e["in"])))
        outcomes[e["parse"]] = outcomes.get(e["parse"], 0) + 1
    ctx.extra["parse_outcomes"] = outcomes
    for i, clause in sorted(failed.items()):
        e = byid[i]
        ctx.fail(signature(e, clause), {"event": e, "clause": clause})
    for e in events[:3]:
        ctx.sample({"in": e["in"][:120], "lvl": e["lvl"], "fg": e["fg"], "parse": e["parse"], "gmt": e["gmt"], "val": e["val"]})
    ctx.rule = ("7 seed messages (5 versions, groups, custom and five-character delimiters, Z and query segments, escape "
                "sequences) x TLC's mutation plans (quick: all single mutations + 500 double ones per seed; thorough: all) x "
                "truncation points (thorough: every byte) + token junk, x {TOLERANT, STRICT} x find_groups; distinct by input")
    ctx.assumptions += ["HL7apyException subclasses (incl. the MLLP ones) are the library's exceptions; ValueError is allowed "
                        "under STRICT only"]
