"""C18 — a message profile replaces the standard structure wherever it speaks.

M: ProfileMC — every single constraint edit (restate, tighten a cardinality, require, forbid) of every node of a
   nested structure x all prescribed forests: the verdicts under profile and standard differ only in errors naming
   the edited child; restating changes nothing; a forbidden child is reported wherever it occurs.
R: profiles are synthesised from real message structures by one edit each (at message, group, segment, field and
   component level, plus a datatype swap) and from the shipped ITI-21 profile; children are created through every
   path (traversal, add_*, assignment, parsing) under STRICT until refused.
T: ProfileTrace (TLC) decides the creation observations (datatype, enforced cardinality), the restated-profile
   equivalences and the exception classes; ValidateTrace (TLC) decides validate() against the PROFILE's structure."""
import copy
import os
import random

from .. import tables as T
from .. import tlc
from ..common import cps, pmap, judge, import_hl7apy, exc_name
from . import groups
from . import c04


def deep_list(ref):
    """standard reference (nested tuples sharing sub-structures) -> private nested lists that can be edited"""
    if isinstance(ref, (tuple, list)):
        return [deep_list(x) for x in ref]
    return ref


def children_of(ref):
    return ref[1] if len(ref) > 1 and isinstance(ref[1], list) else []


def find_paths(ref, depth_cls, prefix=()):
    """all (path of child names, child entry) in the reference tree, with the class chain"""
    out = []
    for ch in children_of(ref):
        name, cref, card, cls = ch[0], ch[1], ch[2], ch[3]
        out.append((prefix + (name,), ch))
        if cls in ("GRP", "SEG", "FIE") or (cls == "CMP" and len(prefix) < 5):
            if isinstance(cref, list) and cref and cref[0] in ("sequence", "choice"):
                out.extend(find_paths(cref, depth_cls, prefix + (name,)))
    return out


def flatten_profile(ref):
    nodes = []

    def walk(r, par):
        for ch in children_of(r):
            if ch[3] not in ("SEG", "GRP"):
                continue
            nodes.append([ch[0], ch[3], ch[2][0], ch[2][1], par])
            me = len(nodes)
            if ch[3] == "GRP":
                walk(ch[1], me)
    walk(ref, 0)
    return nodes


def seg_tables(ref, root):
    """(name of the enclosing group or message, segment name) -> field table of that occurrence;
       (enclosing name, segment name, field name) -> component table of that field, as the profile states them"""
    out = {}

    def walk(r, pname):
        for ch in children_of(r):
            if ch[3] == "GRP":
                walk(ch[1], ch[0])
            elif ch[3] == "SEG":
                if (pname, ch[0]) in out:
                    continue
                out[(pname, ch[0])] = [[f[0], f[2][0], f[2][1]] for f in children_of(ch[1])]
                for f in children_of(ch[1]):
                    comps = children_of(f[1]) if isinstance(f[1], list) and f[1] and f[1][0] == "sequence" else []
                    if comps:
                        out[(pname, ch[0], f[0])] = [[c[0], c[2][0], c[2][1]] for c in comps]
    walk(ref, root)
    return out


def apply_tables(e, tabs, root):
    # (datatype errors are C04's subject; under a profile that swaps a datatype a standard-built element rightly draws one)
    e["errors"] = [t for t in e["errors"] if t[0] != "datatype"]
    for s in e["segs"]:
        s.pop("shape", None)
    for s in e["segs"]:
        par = e["tree"][s["row"] - 1][2]
        pname = root if par == 0 else e["tree"][par - 1][0]
        if s.get("level") == "field":
            key = (pname, e["tree"][s["row"] - 1][0], s["name"])
            if key in tabs:
                s["table"] = tabs[key]
                names = set(c[0] for c in s["table"])
                s["kids"] = [k for k in s["kids"] if k in names]
        elif (pname, s["name"]) in tabs:
            s["table"] = tabs[(pname, s["name"])]


def make_profiles(v, sid, rnd, quick):
    """-> [(edit description, profile dict, edited path, edit kind, want)]"""
    import_hl7apy()
    import hl7apy
    std = hl7apy.load_reference(sid, "Message", v)
    res = [("restate", {sid: deep_list(std)}, (), "restate", None)]
    base = deep_list(std)
    paths = find_paths(base, None)
    by_level = {"SEG": [], "GRP": [], "FIE": [], "CMP": []}
    for p, ch in paths:
        if len(ch[0]) > 3 and ch[3] == "SEG":
            continue
        if "MSH" in p:
            # inside the header only fields that neither the constructor nor the instance texts fill in
            if len(p) < 2 or p[0] != "MSH" or not p[1].startswith("MSH_") or int(p[1][4:]) < 13:
                continue
        if any(n[2][1] == 0 for n in path_nodes(base, p)[:-1]):
            continue        # below a withdrawn element: the way down is refused under STRICT
        by_level.setdefault(ch[3], []).append(p)
    picks = []
    for lvl in ("SEG", "GRP", "FIE", "CMP"):
        cand = by_level.get(lvl, [])
        rnd.shuffle(cand)
        picks.extend((lvl, p) for p in cand[:(2 if quick else 8)])
    for lvl, p in picks:
        for kind in ("tighten", "require", "forbid", "swap"):
            prof = deep_list(std)
            node = None
            r = prof
            for name in p:
                node = [c for c in children_of(r) if c[0] == name][0]
                r = node[1]
            mn, mx = node[2]
            if kind == "tighten":
                if mx == 1:
                    continue
                node[2] = [mn, 1]
            elif kind == "require":
                if mn >= 1:
                    continue
                node[2] = [1, mx if mx != 0 else 1]
            elif kind == "forbid":
                node[2] = [0, 0]
            else:
                if lvl not in ("FIE", "CMP") or node[1][0] != "leaf":
                    continue
                old = node[1][2]
                new = "NM" if old != "NM" else "ST"
                if new not in T.lib(v).BASE_DATATYPES or old not in T.lib(v).BASE_DATATYPES:
                    continue
                node[1][2] = new
            res.append(("%s:%s" % (kind, "/".join(p)), {sid: prof}, p, kind, node))
    return res


def attr_chain(root, path):
    x = root
    for name in path:
        x = getattr(x, name.lower())
    return x


ADDERS = {"GRP": "add_group", "SEG": "add_segment", "FIE": "add_field", "CMP": "add_component"}


def path_nodes(prof_ref, path):
    out = []
    r = prof_ref
    for name in path:
        node = [c for c in children_of(r) if c[0] == name][0]
        out.append(node)
        r = node[1]
    return out


def adder(parent_cls, child_cls):
    return "add_subcomponent" if parent_cls == "CMP" else ADDERS[child_cls]


def last_of(el, name):
    xs = list(getattr(el, name.lower()))
    return xs[-1] if xs else None


def st_nodes(st, path):
    """the nodes of the exported standard structure along a path of group / segment names"""
    out = []
    kids = st["kids"]
    for name in path:
        hit = [k for k in kids if k["name"] == name]
        if not hit:
            break
        out.append(hit[0])
        kids = hit[0].get("kids", [])
    return out


def gen_excluding(kids, chosen, rep, exclude, force=False):
    """required members + the chosen ones (groups in `rep` several times), never the node `exclude`; with `force`, the
    first admissible member when nothing is required (a group cannot be empty)"""
    out = []
    for k in kids:
        if id(k) == exclude or not (k["min"] >= 1 or id(k) in chosen):
            continue
        for _ in range(rep.get(id(k), 1)):
            if k["kind"] == "SEG":
                out.append(k["name"])
            else:
                out.extend(gen_excluding(k["kids"], chosen, rep, exclude, True))
    if not out and force:
        for k in kids:
            if id(k) == exclude:
                continue
            sub = [k["name"]] if k["kind"] == "SEG" else gen_excluding(k["kids"], chosen, rep, exclude, True)
            if sub:
                return sub
    return out


def instance_lines(kids, chosen, rep, exclude, force=False):
    return ["%s|" % n for n in gen_excluding(kids, chosen, rep, exclude, force)]


ROUTES = ("add", "trav", "parsed", "assigned", "value")


class SkipRoute(Exception):
    pass


def build_parent(v, sid, prof, path, route):
    try:
        return _build_parent(v, sid, prof, path, route)
    except Exception as ex:
        # the instance text leaves the edited child out; when the parser still runs into a cardinality of the profile (the
        # edited child is what opens its group, and the group finder opens it for another member), the route does not apply
        if route in ("parsed", "value", "assigned") and type(ex).__name__ == "MaxChildLimitReached":
            raise SkipRoute()
        raise


def _build_parent(v, sid, prof, path, route):
    """-> (parent element of the edited child, its class); the parent comes into being by `route`:
       add      - add_* helpers from a Message created with the profile
       trav     - attribute traversal from that Message (proxies, lazily created chain)
       parsed   - parse_message(text, message_profile=...) of an instance in which every repeatable group on the way
                  occurs twice; the LAST repetition at every step is taken
       assigned - groups and segments on the way are created by assigning ER7 text to the attribute of their parent"""
    import_hl7apy()
    from hl7apy.core import Message
    from hl7apy.parser import parse_message
    from hl7apy.consts import VALIDATION_LEVEL as VL
    nodes = path_nodes(prof[sid], path)
    up = nodes[:-1]
    structural = [n for n in up if n[3] in ("GRP", "SEG")]
    st = T.structure(v, sid)
    sn = st_nodes(st, [n[0] for n in structural])
    chosen = set(id(k) for k in sn)
    edited = st_nodes(st, [n[0] for n in nodes if n[3] in ("GRP", "SEG")])
    exclude = id(edited[-1]) if nodes[-1][3] in ("GRP", "SEG") and len(edited) == len(structural) + 1 else None
    if route in ("parsed", "value"):
        # a repeatable group is given twice when it opens with a non-repeatable segment of its own (a repetition that opens with a
        # nested non-repeatable group is the recorded finding C08-nonrepeatable-inner-group, not this property)
        # ... and that segment is named at one place of the structure only (the premise of C08's prescription)
        allnames = [k["name"] for k in groups.all_nodes(st)]
        rep = dict((id(k), 2) for k, n in zip(sn, structural)
                   if n[3] == "GRP" and n[2][1] != 1 and k["kids"] and k["kids"][0]["kind"] == "SEG" and k["kids"][0]["max"] == 1
                   and allnames.count(k["kids"][0]["name"]) == 1)
        body = [l for l in instance_lines(st["kids"], chosen, rep, exclude) if not l.startswith("MSH")]
        head = groups.msh(v, sid)
        if route == "value":
            # a message created with the profile, then given its whole content as text
            el = Message(sid, reference=prof, version=v, validation_level=VL.STRICT)
            if v >= "2.7":
                head = head.replace("|^~\\&|", "|^~\\&#|")     # (the message was created with the five-character default set)
            try:
                el.value = "\r".join([head] + body)
            except Exception as ex:
                if type(ex).__name__ != "InvalidName" or "_" not in sid:
                    raise SkipRoute() if type(ex).__name__ == "InvalidName" else ex
                el = Message(sid, reference=prof, version=v, validation_level=VL.STRICT)
                el.value = "\r".join([head.replace("^" + sid + "|", "|")] + body)
        else:
          try:
            el = parse_message("\r".join([head] + body), message_profile=prof, validation_level=VL.STRICT)
          except Exception as ex:
            if type(ex).__name__ != "InvalidName":
                raise
            # versions whose MSH-9 has two components only: the structure is then derived as TYPE_EVENT
            if "_" not in sid:
                raise SkipRoute()
            head = head.replace("^" + sid + "|", "|")
            el = parse_message("\r".join([head] + body), message_profile=prof, validation_level=VL.STRICT)
    else:
        el = Message(sid, reference=prof, version=v, validation_level=VL.STRICT)
    cls = "MSG"
    if route == "trav":
        for n in up:
            el = getattr(el, n[0].lower())
            cls = n[3]
        return el, cls
    for i, n in enumerate(up):
        name = n[0]
        nxt = None
        if name == "MSH" and cls == "MSG":
            nxt = last_of(el, name)         # (the header every message is created with)
        elif route in ("parsed", "value") and n[3] in ("GRP", "SEG"):
            nxt = last_of(el, name)
        elif route == "assigned" and n[3] in ("GRP", "SEG") and i < len(sn):
            if n[3] == "SEG":
                setattr(el, name.lower(), "%s|" % name)
            else:
                setattr(el, name.lower(), "\r".join(instance_lines(sn[i]["kids"], chosen, {}, exclude, True)))
            nxt = last_of(el, name)
        if nxt is None:
            nxt = getattr(el, adder(cls, n[3]))(name)
        el, cls = nxt, n[3]
    return el, cls


def safe_value(node, sep="^"):
    """a text for the edited child that lands in the first component (subcomponent) the profile does not withdraw"""
    ref = node[1]
    if not isinstance(ref, list) or not ref or ref[0] == "leaf":
        return "2020"
    comps = children_of(ref)
    for i, c in enumerate(comps):
        if c[2][1] != 0:
            return sep * i + (safe_value(c, "&") if sep == "^" else "2020")
    return "2020"


def create_events(v, sid, desc, prof, path, kind, node):
    """the edited child created through every path under STRICT, until the parent refuses - below a parent that itself
    came into being through every route"""
    out = []
    mn, mx = node[2]
    cls = node[3]
    dt_want = node[1][2] if len(node[1]) > 2 and cls in ("FIE", "CMP") else ""
    name = path[-1]
    val = "%s|" % name if cls == "SEG" else safe_value(node, "^" if cls == "FIE" else "&")
    hows = ("add",) if cls == "GRP" else ("traversal", "add", "assign")
    segnames = [k["name"] for k in groups.all_nodes(T.structure(v, sid)) if k["kind"] == "SEG"]
    unambiguous = len(set(segnames)) == len(segnames)
    for route in ROUTES:
        if route == "trav" and len(path) == 1:
            continue
        if route in ("parsed", "assigned", "value") and not unambiguous:
            continue        # text can be grouped in one way only when every segment is named at one place (premise of C08)
        for how in hows:
            e = {"k": "create", "route": route, "how": how, "desc": desc, "v": v, "sid": sid, "dt_want": dt_want or "", "dt_got": "",
                 "max_want": mx, "accepted": 0, "tried": 3, "outcome": "ok"}
            try:
                parent, pcls = build_parent(v, sid, prof, path, route)
                pre = len(list(getattr(parent, name.lower()))) if (route in ("parsed", "assigned", "value") or "MSH" in path) else 0
                got_dt = None
                acc = 0
                for k in range(pre, pre + 3):
                    try:
                        if how == "add":
                            ch = getattr(parent, adder(pcls, cls))(name)
                        elif how == "traversal":
                            if k == 0:
                                getattr(parent, name.lower()).value = val
                            else:
                                getattr(parent, name.lower())[k] = val
                            ch = getattr(parent, name.lower())[k]
                        else:
                            if k == 0:
                                setattr(parent, name.lower(), val)
                            else:
                                getattr(parent, name.lower())[k] = val
                            ch = getattr(parent, name.lower())[k]
                        if k == pre and cls in ("FIE", "CMP"):
                            got_dt = ch.datatype
                        acc += 1
                    except Exception as ex:
                        if type(ex).__name__ == "MaxChildLimitReached" and getattr(getattr(ex, "child", None), "name", None) == name:
                            break       # refused by the parent of the edited child (not by something below it)
                        raise
                e["accepted"] = pre + acc
                e["tried"] = pre + 3
                e["pre"] = pre
                e["dt_got"] = (got_dt or "") if (dt_want and acc >= 1) else (dt_want if dt_want and acc == 0 else "")
            except SkipRoute:
                continue
            except Exception as ex:
                e["outcome"] = exc_name(ex)
            out.append(e)
    return out


def below_events(v, sid, desc, prof, path, kind, node):
    """a profile that says something BELOW a complex component (cardinality / datatype of one of its subcomponents): the
    message is PARSED with the profile, at both levels, with that component filled in; the component's subcomponents carry
    the profile's datatypes, and the component validated on its own reports the profile's cardinalities"""
    import_hl7apy()
    from hl7apy.parser import parse_message
    nodes = path_nodes(prof[sid], path)
    if len(nodes) < 4 or [n[3] for n in nodes[-4:]] != ["SEG", "FIE", "CMP", "CMP"] or "MSH" in path or kind == "tighten":
        return []
    segn, fien, cmpn, subn = nodes[-4], nodes[-3], nodes[-2], nodes[-1]
    if fien[2][1] == 0 or cmpn[2][1] == 0:
        return []
    st = T.structure(v, sid)
    structural = [n for n in nodes if n[3] in ("GRP", "SEG")]
    sn = st_nodes(st, [n[0] for n in structural])
    if len(sn) != len(structural):
        return []
    segnames = [k["name"] for k in groups.all_nodes(st) if k["kind"] == "SEG"]
    if segnames.count(segn[0]) != 1:
        return []           # (text is grouped in one way only when the segment is named at one place)
    subs = children_of(cmpn[1])
    fi = int(fien[0].rsplit("_", 1)[1])
    ci = int(cmpn[0].rsplit("_", 1)[1])
    vals = []
    VALID = {"DT": "20200101", "DTM": "20200101", "TM": "1201", "TS": "20200101"}
    for sub in subs:
        withdrawn = sub[2][1] == 0
        one = VALID.get(sub[1][2] if isinstance(sub[1], list) and len(sub[1]) > 2 else "", "1")
        if sub is subn:
            vals.append("" if kind == "require" else one)
        else:
            vals.append("" if withdrawn else one)
    if not any(vals):
        return []
    line = segn[0] + "|" * fi + "^" * (ci - 1) + "&".join(vals).rstrip("&")
    body = [l for l in instance_lines(st["kids"], set(id(k) for k in sn), {}, None) if not l.startswith("MSH")]
    body = [line if l.startswith(segn[0] + "|") else l for l in body]
    if line not in body:
        return []
    head = groups.msh(v, sid)
    out = []
    for lvl in (1, 2):
        if lvl == 1 and kind == "forbid":
            continue        # (STRICT rightly refuses the text)
        e = {"k": "below", "desc": desc, "v": v, "sid": sid, "lvl": lvl, "route": "parsed", "how": "component validated alone",
             "subs": [], "errors": [], "outcome": "ok"}
        try:
            try:
                m = parse_message("\r".join([head] + body), message_profile=prof, validation_level=lvl)
            except Exception as ex:
                if type(ex).__name__ != "InvalidName":
                    raise
                if "_" not in sid:
                    continue        # (versions whose MSH-9 has two components only: the route does not apply, as in _build_parent)
                m = parse_message("\r".join([head.replace("^" + sid + "|", "|")] + body), message_profile=prof, validation_level=lvl)
            el = m
            for n in structural:
                el = last_of(el, n[0])
            comp = getattr(getattr(el, fien[0].lower())[0], cmpn[0].lower())[0]
            got = dict((c.name, c.datatype) for c in comp.children)
            cnt = {}
            for c in comp.children:
                cnt[c.name] = cnt.get(c.name, 0) + 1
            for sub in subs:
                leaf = isinstance(sub[1], list) and len(sub[1]) > 2 and sub[1][0] == "leaf"
                e["subs"].append([sub[0], sub[2][0], sub[2][1], cnt.get(sub[0], 0), sub[1][2] if leaf and sub[0] in got else "",
                                  got.get(sub[0]) or ""])
            r = comp.validate(return_errors=True)
            for x in r.errors:
                for t in c04.tokenise(x):
                    if t[0] in ("missing", "limit") and t[1] == cmpn[0]:
                        e["errors"].append([t[0], t[2]])
        except Exception as ex:
            e["outcome"] = exc_name(ex)
        out.append(e)
    return out


def positional_events(v, sid, rnd):
    """profiles that give a complex component another complex datatype; the subcomponents are then reached by the
    positional names <field>_<j>_<k> and by name"""
    import_hl7apy()
    import hl7apy
    from hl7apy.core import Message
    from hl7apy.consts import VALIDATION_LEVEL as VL
    out = []
    std = hl7apy.load_reference(sid, "Message", v)
    base = deep_list(std)
    cands = []
    for p_, ch in find_paths(base, None):
        if ch[3] == "CMP" and len(p_) >= 2 and isinstance(ch[1], list) and ch[1] and ch[1][0] == "sequence" and "MSH" not in p_:
            nodes_ = path_nodes(base, p_)
            if nodes_[-2][3] == "FIE" and not any(n[2][1] == 0 for n in nodes_):
                cands.append(p_)
    rnd.shuffle(cands)
    for p_ in cands[:2]:
        prof = deep_list(std)
        nodes_ = path_nodes(prof, p_)
        comp = nodes_[-1]
        olddt = comp[1][2]
        others = [d for d in T.complex_datatypes(v) if d != olddt and len(T.dt_rows(v, d) or []) >= 2
                  and all(c["kind"] == "base" for c in T.dt_rows(v, d)) and T.dt_rows(v, d)[-1]["dt"] in ("ST", "ID", "IS")
                  and T.dt_rows(v, d)[-1]["max"] != 0]
        if not others:
            continue
        nd = rnd.choice(others)
        comp[1] = ["sequence", deep_list(hl7apy.load_reference(nd, "Datatypes_Structs", v)), nd] + list(comp[1][3:])
        fname, cname = p_[-2], p_[-1]
        j = int(cname.split("_")[-1])
        k = len(T.dt_rows(v, nd))
        for lvl in (VL.STRICT, VL.TOLERANT):
            e = {"k": "pos", "desc": "swapc:%s->%s" % ("/".join(p_), nd), "v": v, "sid": sid, "how": "positional", "route": "add",
                 "want": "%s_%d" % (nd, k), "got": "", "lvl": int(lvl)}
            try:
                m = Message(sid, reference={sid: prof}, version=v, validation_level=lvl)
                parent, pcls = build_parent(v, sid, {sid: prof}, p_, "add")        # the field
                setattr(parent, "%s_%d_%d" % (fname.lower(), j, k), "x")
                sub = getattr(getattr(parent, cname.lower()), "%s_%d" % (nd.lower(), k))
                e["got"] = sub.element_name if len(sub) else "-"
            except Exception as ex:
                e["got"] = "!" + exc_name(ex)
            out.append(e)
    return out


def digest_suite(v, sid, reference):
    """results of a small corpus with / without a (restated) profile"""
    import_hl7apy()
    from hl7apy.core import Message
    from hl7apy.parser import parse_message
    res = []
    kw = {"reference": reference} if reference is not None else {}
    try:
        m = Message(sid, version=v, **kw)
        m.msh.msh_7 = "20200101"
        res.append(m.to_er7())
        r = m.validate(return_errors=True)
        res.append("%s/%d/%d" % (r.is_valid, len(r.errors), len(r.warnings)))
        res.append(",".join(sorted(str(x) for x in r.errors))[:2000])
    except Exception as ex:
        res.append("exc:" + exc_name(ex))
    try:
        st = T.structure(v, sid)
        names = groups.gen_all(st["kids"])
        text = "\r".join([groups.msh(v, sid)] + [groups.rich_line(n, v, random.Random(5)) for n in names[1:] if len(n) == 3])
        pk = {"message_profile": reference} if reference is not None else {}
        for lvl in (2, 1):
            try:
                p = parse_message(text, validation_level=lvl, **pk)
                res.append(p.to_er7())
                r = p.validate(return_errors=True)
                res.append(",".join(sorted(str(x) for x in r.errors))[:3000])
            except Exception as ex:
                res.append("exc:" + exc_name(ex))
    except Exception as ex:
        res.append("gen-exc:" + exc_name(ex))
    return res


class ValidatedAgainst(object):
    """an element whose validate() means Validator.validate(element, reference=<the profile's structure>)"""
    def __init__(self, el, ref):
        self.__dict__["_el"] = el
        self.__dict__["_ref"] = ref

    def validate(self, report_file=None, return_errors=False):
        from hl7apy.validation import Validator
        return Validator.validate(self._el, reference=self._ref, report_file=report_file, return_errors=return_errors)

    def __getattr__(self, name):
        return getattr(self._el, name)


def validation_events(v, sid, desc, prof, rnd):
    """messages validated against the profile; the expected errors come from the PROFILE's structure"""
    import_hl7apy()
    from hl7apy.parser import parse_message, parse_segment
    ref = prof[sid]
    nodes = flatten_profile(ref)
    tabs = seg_tables(ref, sid)
    out = []
    st = T.structure(v, sid)
    for (mode, names, conf) in groups.instances(st, rnd, True)[:3]:
        # (a segment the version defines without fields - withdrawn, e.g. URD in 2.8.2 - conforms only when bare)
        text = "\r".join([groups.msh(v, sid)] + [groups.seg_text(n, i + 1, v) for i, n in enumerate(names[1:])])
        try:
            m = parse_message(text, message_profile=prof)
        except Exception as ex:
            continue
        e = c04.observe(m, v, sid, nodes, mode, desc)
        apply_tables(e, tabs, sid)
        out.append(e)
        # every segment of the profile message validated on its own: validate() of a part follows the profile too
        def parts(el, pname):
            for ch in el.children:
                if ch.classname == "Group":
                    for x in parts(ch, ch.name):
                        yield x
                elif ch.classname == "Segment" and ch.name != "MSH":
                    yield pname, ch
        for pname, sg in list(parts(m, sid))[:6]:
            try:
                es = c04.observe(sg, v, sg.name, [], mode + "+segment_of_profile_message_alone", desc)
            except Exception:
                continue
            es["errors"] = [t for t in es["errors"] if t[0] != "datatype"]
            for rec in es["segs"]:
                rec.pop("shape", None)
                if rec.get("level") == "field":
                    key = (pname, sg.name, rec["name"])
                    if key in tabs:
                        rec["table"] = tabs[key]
                        names_ = set(c_[0] for c_ in rec["table"])
                        rec["kids"] = [k_ for k_ in rec["kids"] if k_ in names_]
                elif (pname, sg.name) in tabs:
                    rec["table"] = tabs[(pname, sg.name)]
            out.append(es)
        # the same text parsed WITHOUT the profile (every element carries the standard structure) and judged against it
        try:
            m2 = parse_message(text)
            e2 = c04.observe(ValidatedAgainst(m2, ref), v, sid, nodes, mode + "+standard_tree_judged_against_profile", desc)
            apply_tables(e2, tabs, sid)
            out.append(e2)
        except Exception:
            pass
        # the profile message with every segment replaced by one parsed on its own (standard structure inside)
        try:
            m3 = parse_message(text, message_profile=prof)

            def swap(el):
                for i, ch in enumerate(list(el.children)):
                    if ch.classname == "Group":
                        swap(ch)
                    elif ch.classname == "Segment" and ch.name != "MSH":
                        el.children[i] = parse_segment(ch.to_er7(), version=v)
            swap(m3)
            e3 = c04.observe(m3, v, sid, nodes, mode + "+segments_replaced_by_standard_ones", desc)
            apply_tables(e3, tabs, sid)
            out.append(e3)
        except Exception:
            pass
    return out


def _chunk(args):
    v, sids, seed, quick = args
    rnd = random.Random("%s-%s-c18" % (seed, v))
    creates, sames, vals = [], [], []
    for sid in sids:
        try:
            st = T.structure(v, sid)
        except Exception:
            continue
        nodes = groups.flatten_structure(st)
        if any(n[1] == "SEG" and len(n[0]) != 3 for n in nodes):
            continue
        if len(set((n[4], n[0]) for n in nodes)) != len(nodes):
            continue        # the same name twice among siblings (ADT_A17): creation by name is ambiguous
        try:
            profs = make_profiles(v, sid, rnd, quick)
        except Exception as ex:
            creates.append({"harness_note": "profile synthesis failed for %s %s: %r" % (v, sid, ex)})
            continue
        try:
            creates.extend(positional_events(v, sid, rnd))
        except Exception as ex:
            creates.append({"harness_note": "positional events failed for %s %s: %r" % (v, sid, ex)})
        for (desc, prof, path, kind, node) in profs:
            if kind == "restate":
                a = digest_suite(v, sid, prof)
                b = digest_suite(v, sid, None)
                sames.append({"k": "same", "desc": desc, "v": v, "sid": sid, "with": a, "without": b})
                vals.extend(validation_events(v, sid, desc, prof, rnd))
                continue
            creates.extend(create_events(v, sid, desc, prof, path, kind, node))
            try:
                creates.extend(below_events(v, sid, desc, prof, path, kind, node))
            except Exception as ex:
                creates.append({"harness_note": "below events failed for %s %s %s: %r" % (v, sid, desc, ex)})
            if node[3] in ("SEG", "GRP", "FIE"):
                vals.extend(validation_events(v, sid, desc, prof, rnd))
    return creates, sames, vals


def exception_events():
    import_hl7apy()
    import hl7apy
    from hl7apy.core import Message
    from hl7apy.parser import parse_message
    out = []
    base = os.path.join(os.environ.get("VERIF_REPO", "/repo"), "tests", "profiles")
    mp = hl7apy.load_message_profile(os.path.join(base, "iti_21"))
    legacy = hl7apy.load_message_profile(os.path.join(base, "old_pharm_h4"))

    def cls(fn):
        try:
            fn()
            return "ok"
        except Exception as ex:
            return exc_name(ex)
    out.append({"k": "exc", "what": "Message(ADT_A01, reference=iti21)", "got": cls(lambda: Message("ADT_A01", reference=mp)), "want": "MessageProfileNotFound"})
    out.append({"k": "exc", "what": "Message(RSP_K21, reference=iti21)", "got": cls(lambda: Message("RSP_K21", reference=mp)), "want": "ok"})
    out.append({"k": "exc", "what": "Message(RAS_O17, reference=legacy)", "got": cls(lambda: Message("RAS_O17", reference=legacy)), "want": "LegacyMessageProfile"})
    t = "MSH|^~\\&|A|B|C|D|20200101||ADT^A01^ADT_A01|1|P|2.5\rEVN||20200101\rPID|1"
    out.append({"k": "exc", "what": "parse_message(ADT_A01, message_profile=iti21)", "got": cls(lambda: parse_message(t, message_profile=mp)), "want": "MessageProfileNotFound"})
    for lvl in (1, 2):
        out.append({"k": "exc", "what": "Message(ADT_A01, reference=iti21, level=%d)" % lvl,
                    "got": cls(lambda: Message("ADT_A01", reference=mp, validation_level=lvl)), "want": "MessageProfileNotFound"})
    return out, mp


def signature(e, clause):
    sig = {"clause": clause, "k": e.get("k", "val")}
    for k in ("route", "how", "desc", "what", "sid", "v", "mutation"):
        if k in e:
            sig[k] = e[k] if k != "desc" else e[k].split(":")[0]
    return sig


def run(ctx):
    quick = ctx.tier == "quick"
    r = tlc.run("ProfileMC", "ProfileMC.cfg", workers=16, timeout=1200)
    if r.violated or not r.completed:
        ctx.machinery_failure("ProfileMC: %r\n%s" % (r.violated, r.raw[-1200:]))
    ctx.add_mc(r, "ProfileMC: single edits of a nested structure x all prescribed forests; OnlyWhereItSpeaks, RestatingChangesNothing, ForbidReportsEveryOccurrence")
    rnd = random.Random(ctx.seed + 18)
    jobs = []
    for v in T.versions():
        sids = T.message_names(v)
        rnd.shuffle(sids)
        sids = sids[:3 if quick else 40]
        for k in range(3 if quick else 4):
            jobs.append((v, sids[k::(3 if quick else 4)], ctx.seed, quick))
    creates, sames, vals = [], [], []
    for a, b, c in pmap(_chunk, jobs):
        creates.extend(x for x in a if "harness_note" not in x)
        ctx.notes.extend(x["harness_note"] for x in a if "harness_note" in x)
        sames.extend(b)
        vals.extend(c)
    excs, mp = exception_events()
    # the shipped profile: validation against it
    try:
        from hl7apy.parser import parse_message
        ref = mp["RSP_K21"]
        nodes = flatten_profile(deep_list(ref))
        tabs = seg_tables(deep_list(ref), "RSP_K21")
        for text in ("MSH|^~\\&|A|B|C|D|20200101||RSP^K22^RSP_K21|1|P|2.5\rMSA|AA|1\rQAK|1|OK\rQPD|Q^x|1\rPID|1||1^^^X||D^J",
                     "MSH|^~\\&|A|B|C|D|20200101||RSP^K22^RSP_K21|1|P|2.5\rMSA|AA|1\rQPD|Q^x|1\rPID|1\rPID|2\rPD1|1\rPD1|2",
                     "MSH|^~\\&|A|B|C|D|20200101||RSP^K22^RSP_K21|1|P|2.5\rMSA|AA|1\rQAK|1|OK\rQPD|Q^x|1\rEVN|1"):
            m = parse_message(text, message_profile=mp)
            e = c04.observe(m, "2.5", "RSP_K21", nodes, "iti21", "shipped")
            apply_tables(e, tabs, "RSP_K21")
            vals.append(e)
    except Exception as ex:
        ctx.machinery_failure("ITI-21 validation events: %r" % ex)
    ev1 = creates + sames + excs
    for i, e in enumerate(ev1):
        e["id"] = i + 1
    ctx.evaluations += len(ev1) + len(vals)
    failed, _ = judge(ctx, "ProfileTrace", "ProfileTrace.cfg", ev1)
    byid = {e["id"]: e for e in ev1}
    for i, clause in sorted(failed.items()):
        e = byid[i]
        ctx.fail(signature(e, clause), {"clause": clause, "event": e})
    for i, e in enumerate(vals):
        e["id"] = i + 1
    send = [{k: e[k] for k in e if k not in ("mode", "mutation", "v")} for e in vals]
    failed2, _ = judge(ctx, "ValidateTrace", "ValidateTrace.cfg", send, heap="4g")
    byid2 = {e["id"]: e for e in vals}
    for i, clause in sorted(failed2.items()):
        e = byid2[i]
        ctx.fail(signature(e, "against_profile:" + clause), {"clause": clause, "v": e["v"], "sid": e["sid"], "desc": e["mutation"],
                                                             "errors": e["errors"], "tree": e["tree"][:20]})
    for e in ev1:
        ctx.nontrivial((e["k"], e.get("desc"), e.get("route"), e.get("how"), e.get("v"), e.get("sid"), e.get("what")))
    for e in vals:
        ctx.nontrivial(("val", e["mutation"], e["v"], e["sid"], e["mode"]))
    ctx.extra["creation_events"] = len(creates)
    ctx.extra["restated_profile_comparisons"] = len(sames)
    ctx.extra["validations_against_profiles"] = len(vals)
    for e in creates[:3]:
        ctx.sample({k: e[k] for k in ("route", "how", "desc", "v", "sid", "dt_want", "dt_got", "max_want", "accepted", "outcome")})
    ctx.rule = ("per version (quick: 3, thorough: 40) message structures: the restated profile (digests of build / parse / encode / "
                "validate with and without it), and one-edit profiles - tighten, require, forbid at segment, group, field and "
                "component level, datatype swap of leaf fields/components - each exercised through traversal, add_* and "
                "assignment under STRICT until refused, below a parent that was itself built by add_*, by traversal, by parsing "
                "(last repetition of every repeatable group on the way) and by ER7 assignment to its own parent, and through parsing + validation judged against the profile's structure; "
                "the shipped ITI-21 profile; missing and legacy profiles")
    ctx.assumptions += ["a standard reference tree is itself a valid message profile (same nested format), so profiles are "
                        "synthesised by editing a private copy of it"]
