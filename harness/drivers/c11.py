"""C11 — reading never writes; the first write materialises exactly the path read.

M: LazyMC (every order of writes to three leaf chains, reads anywhere) with the laws WriteLaw / ReadLaw.
R: the dumped graph (state = which chains are materialised) x every read (chain x way of reading) and write is
   executed on real segments, fields and messages, reads interleaved at random before the writes.
T: each step records the recursive projection of the root before and after; LazyTrace decides."""
import os
import random

from .. import tlc
from ..common import cps, pmap, judge, import_hl7apy, exc_name

V = {"1": "1", "2": "2"}

# root kind -> (factory description, three leaf chains L1 (deep), L2 (shares its first element with L1), L3,
#               read-only chains, long-name spelling of chains, position (i, j, k) of each leaf when root is a segment)
CONC = {
    "seg": {
        "L": [["pid_3", "cx_4", "hd_2"], ["pid_3", "cx_1"], ["pid_5", "xpn_2"]],
        "pos": [[3, 4, 2], [3, 1, 1], [5, 2, 1]],
        "ro": [["pid_11", "xad_1", "sad_1"], ["pid_13"], ["pid_3", "cx_6", "hd_1"], ["pid_7", "ts_1"]],
        "long": {"pid_3": "patient_identifier_list", "cx_4": "assigning_authority", "hd_2": "universal_id",
                 "cx_1": "id_number", "pid_5": "patient_name", "xpn_2": "given_name", "pid_13": "phone_number_home"},
    },
    "fld": {
        "L": [["cx_4", "hd_2"], ["cx_4", "hd_1"], ["cx_5"]],
        "pos": [[], [], []],
        "ro": [["cx_6", "hd_1"], ["cx_1"], ["pid_3_6_2"], ["pid_3_2"]],
        "long": {"cx_4": "assigning_authority", "hd_2": "universal_id", "hd_1": "namespace_id",
                 "cx_5": "identifier_type_code", "cx_1": "id_number"},
    },
    "msg": {
        "L": [["pid", "pid_3", "cx_4", "hd_2"], ["pid", "pid_8"], ["evn", "evn_1"]],
        "pos": [[], [], []],
        "ro": [["pv1", "pv1_2"], ["pid", "pid_5", "xpn_1", "fn_1"], ["nk1", "nk1_2", "xpn_2"], ["msh", "msh_9", "msg_1"],
               ["adt_a01_insurance", "in1", "in1_2", "ce_1"]],
        "long": {"pid_3": "patient_identifier_list", "cx_4": "assigning_authority", "hd_2": "universal_id",
                 "pid_8": "administrative_sex", "evn_1": "event_type_code"},
    },
    "grp": {
        "L": [["oml_o33_patient", "pid", "pid_3", "cx_1"], ["oml_o33_patient", "pid", "pid_8"],
              ["oml_o33_specimen", "spm", "spm_1"]],
        "pos": [[], [], []],
        "ro": [["oml_o33_patient", "oml_o33_patient_visit", "pv1", "pv1_2"], ["oml_o33_specimen", "obx", "obx_1"],
               ["nte", "nte_1"], ["oml_o33_specimen", "oml_o33_order", "orc", "orc_1"]],
        "long": {"pid_3": "patient_identifier_list", "cx_1": "id_number", "pid_8": "administrative_sex"},
    },
}
CONC["qpd"] = {      # an open-ended segment (last field of type varies): fields beyond the defined ones
    "L": [["qpd_2"], ["qpd_1", "ce_1"], ["qpd_1", "ce_2"]],     # (a write into a field of type varies also creates its VARIES_1)
    "pos": [[2, 1, 1], [1, 1, 1], [1, 2, 1]],
    "ro": [["qpd_10"], ["qpd_4"], ["qpd_3"], ["qpd_30"]],
    "long": {},
}
CONC["zseg"] = {
    "L": [["zin_2"], ["zin_5"], ["zin_9"]],
    "pos": [[2, 1, 1], [5, 1, 1], [9, 1, 1]],
    "ro": [["zin_4"], ["zin_12"], ["zin_1"]],
    "long": {},
}
ABS_LEAF = {("a", "x", "m", "t"): 0, ("a", "y"): 1, ("b", "x"): 2}
# assigning a plain text to an intermediate element: (chain assigned, chain of the leaf the text lands in)
ASSIGN_EXTRA = {"qpd": [], "zseg": []}
ASSIGN = {
    "seg": [(["pid_3"], ["pid_3", "cx_1"]), (["pid_3", "cx_4"], ["pid_3", "cx_4", "hd_1"]), (["pid_5"], ["pid_5", "xpn_1", "fn_1"])],
    "fld": [(["cx_4"], ["cx_4", "hd_1"]), (["cx_6"], ["cx_6", "hd_1"])],
    "msg": [(["pid", "pid_3"], ["pid", "pid_3", "cx_1"]), (["pid", "pid_3", "cx_4"], ["pid", "pid_3", "cx_4", "hd_1"]),
            (["pid", "pid_5"], ["pid", "pid_5", "xpn_1", "fn_1"]), (["evn", "evn_2"], ["evn", "evn_2", "ts_1"])],
    "grp": [(["oml_o33_patient", "pid", "pid_3"], ["oml_o33_patient", "pid", "pid_3", "cx_1"]),
            (["oml_o33_specimen", "spm", "spm_2"], ["oml_o33_specimen", "spm", "spm_2", "eip_1", "ei_1"])],
}
READ_HOWS = ["get", "er7", "value", "len", "iter", "repr", "long", "upper", "index", "twice", "root_er7",
             "root_validate", "root_repr", "root_iter", "children_get"]


def make_root(kind, version, strict):
    import_hl7apy()
    from hl7apy.core import Segment, Field, Message
    from hl7apy.consts import VALIDATION_LEVEL as VL
    lvl = VL.STRICT if strict else VL.TOLERANT
    if kind == "seg":
        return Segment("PID", version=version, validation_level=lvl)
    if kind == "qpd":
        return Segment("QPD", version=version, validation_level=lvl)
    if kind == "zseg":
        return Segment("ZIN", version=version, validation_level=lvl)
    if kind == "fld":
        return Field("PID_3", version=version, validation_level=lvl)
    if kind == "msg":
        return Message("ADT_A01", version=version, validation_level=lvl)
    return Message("OML_O33", version=version, validation_level=lvl)


def rows(el, prefix=()):
    out = []
    counts = {}
    for ch in el.children:
        cn = ch.classname
        if cn in ("SubComponent", "Component", "Field") and ch.is_unknown():
            continue        # the holder of a base datatype value, not an element of the structure
        nm = ch.name or "?"
        k = counts.get(nm, 0)
        counts[nm] = k + 1
        p = list(prefix) + ["%s#%d" % (nm, k)]
        sub = rows(ch, p) if cn != "SubComponent" else []
        out.append([p, cps(ch.to_er7()) if not sub else []])
        out.extend(sub)
    return out


def observe(root):
    try:
        r = root.validate(return_errors=True)
        valid = "v:%s:%d:%d" % (r.is_valid, len(r.errors), len(r.warnings))
    except Exception as ex:
        valid = "exc:" + exc_name(ex)
    try:
        trail = cps(root.to_er7(trailing_children=True))
    except Exception as ex:
        trail = cps("exc:" + exc_name(ex))
    return rows(root), cps(root.to_er7()), valid, trail


def designators(chain):
    return ["%s#0" % a.upper() for a in chain]


def walk(root, chain):
    x = root
    for a in chain:
        x = getattr(x, a)
    return x


def do_read(root, conc, chain, how):
    if how == "get":
        walk(root, chain)
    elif how == "er7":
        walk(root, chain).to_er7()
    elif how == "value":
        walk(root, chain).value
    elif how == "len":
        len(walk(root, chain))
    elif how == "iter":
        list(walk(root, chain))
        for k in range(1, len(chain)):
            list(walk(root, chain[:k]))
    elif how == "repr":
        repr(walk(root, chain))
        str(walk(root, chain))
    elif how == "long":
        walk(root, [conc["long"].get(a, a) for a in chain])
    elif how == "upper":
        walk(root, [a.upper() for a in chain]).to_er7()
    elif how == "index":
        x = root
        for a in chain:
            x = getattr(x, a)
            if len(x):
                x = x[0]
    elif how == "twice":
        for _ in range(3):
            walk(root, chain).to_er7()
    elif how == "root_er7":
        root.to_er7()
        root.to_er7(trailing_children=True)
    elif how == "root_validate":
        try:
            root.validate(return_errors=True)
        except Exception:
            pass
    elif how == "root_repr":
        repr(root), repr(root.children), str(root.children)
    elif how == "root_iter":
        [c for c in root.children], len(root.children), [c in root.children for c in list(root.children)]
    elif how == "children_get":
        if any(a.count("_") >= 2 and a.split("_")[-1].isdigit() and a.split("_")[-2].isdigit() for a in chain):
            return          # positional paths are resolved by Field attribute access only
        x = root
        for a in chain:
            x = x.children.get(a.upper())
            if x is None:
                break


def do_write(root, chain, v):
    x = walk(root, chain[:-1]) if len(chain) > 1 else root
    setattr(x, chain[-1], v)


def run_ops(kind, version, strict, ops, record_from):
    conc = CONC[kind]
    root = make_root(kind, version, strict)
    events = []
    pre = observe(root)
    for k, op in enumerate(ops):
        outcome = "ok"
        try:
            if op[0] == "R":
                do_read(root, conc, op[1], op[2])
            elif op[0] == "A":
                do_write(root, ASSIGN[kind][op[1]][0], op[2])
            else:
                do_write(root, conc["L"][op[1]], op[2])
        except Exception as ex:
            outcome = exc_name(ex)
        post = observe(root)
        if k >= record_from:
            if op[0] == "R":
                e = {"op": "Read", "path": designators(op[1]), "how": op[2], "v": [], "pos": []}
            elif op[0] == "A":
                e = {"op": "Assign", "path": designators(ASSIGN[kind][op[1]][0]), "leafpath": designators(ASSIGN[kind][op[1]][1]),
                     "how": "setattr", "v": cps(op[2]), "pos": []}
            else:
                e = {"op": "Write", "path": designators(conc["L"][op[1]]), "how": "setattr", "v": cps(op[2]),
                     "pos": conc["pos"][op[1]], "leaf": op[1]}
            e.update({"outcome": outcome, "pre": pre[0], "post": post[0], "encpre": pre[1], "encpost": post[1],
                      "validpre": pre[2], "validpost": post[2], "trailpre": pre[3], "trailpost": post[3],
                      "kind": kind, "ver": version, "strict": strict})
            events.append(e)
        pre = post
    return events


XEC = {"FIELD": "!", "COMPONENT": "$", "SUBCOMPONENT": "@", "REPETITION": "*", "ESCAPE": "?", "SEGMENT": "\r", "GROUP": "\r"}
SAME_CASES = [   # (chain of a Message ADT_A01, how the elements of the chain are created beforehand, text with roles C S R)
    (["pid", "pid_5"], [("add_segment", "PID"), ("add_field", "PID_5")], "ASDCB"),
    (["pid", "pid_5", "xpn_1"], [("add_segment", "PID"), ("add_field", "PID_5"), ("add_component", "XPN_1")], "ESF"),
    (["pid", "pid_3"], [("add_segment", "PID"), ("add_field", "PID_3")], "1CCCXSYSZCMR"),
    (["pid", "pid_13"], [("add_segment", "PID"), ("add_field", "PID_13")], "5CPCH"),
    (["evn", "evn_2"], [("add_segment", "EVN"), ("add_field", "EVN_2")], "2020"),
    (["zin", "zin_2"], [("add_segment", "ZIN"), ("add_field", "ZIN_2")], "x"),        # a Z segment that does not exist yet
    (["zap", "zap_3"], [("add_segment", "ZAP"), ("add_field", "ZAP_3")], "ab"),
    (["adt_a01_procedure", "zpr", "zpr_2"], [("add_group", "ADT_A01_PROCEDURE"), ("add_segment", "ZPR"), ("add_field", "ZPR_2")], "w"),
    (["adt_a01_insurance", "in1", "in1_2"], [("add_group", "ADT_A01_INSURANCE"), ("add_segment", "IN1"), ("add_field", "IN1_2")], "PCQ"),
]


def same_events(version, strict):
    """the same write through a pending chain, through a chain whose last element is pending, and through an existing chain"""
    import_hl7apy()
    from hl7apy.core import Message
    from hl7apy.consts import VALIDATION_LEVEL as VL
    lvl = VL.STRICT if strict else VL.TOLERANT
    out = []
    for ecname, ec in (("default", None), ("custom", XEC)):
        seps = {"C": "^", "S": "&", "R": "~"} if ec is None else {"C": "$", "S": "@", "R": "*"}
        for chain, makers, roles in SAME_CASES:
            text = "".join(seps.get(ch, ch) for ch in roles)
            for how in ("value", "setattr"):
                for existing in (0, len(makers) - 1):          # (a) vs: nothing exists / all but the last element exist
                    res = []
                    outcome = "ok"
                    for made in (existing, len(makers)):
                        try:
                            kw = {"encoding_chars": dict(ec)} if ec else {}
                            m = Message("ADT_A01", version=version, validation_level=lvl, **kw)
                            m.msh.msh_7 = "20200101"
                            el = m
                            for fn, nm in makers[:made]:
                                el = getattr(el, fn)(nm)
                            x = m
                            for a in chain[:-1]:
                                x = getattr(x, a)
                            if how == "value":
                                getattr(x, chain[-1]).value = text
                            else:
                                setattr(x, chain[-1], text)
                            res.append((rows(m), cps(m.to_er7())))
                        except Exception as ex:
                            outcome = exc_name(ex)
                            res.append(([], []))
                    out.append({"op": "Same", "how": how, "path": designators(chain), "v": cps(text), "pos": [], "outcome": outcome,
                                "a": res[0][0], "enca": res[0][1], "b": res[1][0], "encb": res[1][1], "kind": "msg:" + ecname,
                                "ver": version, "strict": strict, "pre": [], "post": [], "existing": existing})
    # ... and after rounds of "write through the pending chain, delete its top element": what was created and deleted
    # before must not matter either (a = fresh message, b = after `rounds` such rounds; the same final write)
    for chain, makers, roles in SAME_CASES:
        text = "".join({"C": "^", "S": "&", "R": "~"}.get(ch, ch) for ch in roles)
        for how in ("value", "setattr"):
            for rounds in (1, 2):
                res = []
                outcome = "ok"
                for r_ in (0, rounds):
                    try:
                        m = Message("ADT_A01", version=version, validation_level=lvl)
                        m.msh.msh_7 = "20200101"

                        def write(t):
                            x = m
                            for a in chain[:-1]:
                                x = getattr(x, a)
                            if how == "value":
                                getattr(x, chain[-1]).value = t
                            else:
                                setattr(x, chain[-1], t)
                        for k_ in range(r_):
                            write(text)
                            delattr(m, chain[0])
                        write(text)
                        res.append((rows(m), cps(m.to_er7())))
                    except Exception as ex:
                        outcome = exc_name(ex)
                        res.append(([], []))
                out.append({"op": "Same", "how": how + ":after_%d_rounds" % rounds, "path": designators(chain), "v": cps(text), "pos": [],
                            "outcome": outcome, "a": res[0][0], "enca": res[0][1], "b": res[1][0], "encb": res[1][1], "kind": "msg:rounds",
                            "ver": version, "strict": strict, "pre": [], "post": [], "existing": -rounds})
    return out


def _same_chunk(args):
    return same_events(*args)


def _chunk(args):
    kind, version, strict, jobs = args
    out = []
    for ops, first in jobs:
        try:
            out.extend(run_ops(kind, version, strict, ops, first))
        except Exception as ex:
            out.append({"harness_error": repr(ex), "ops": ops})
    return out


def graph_jobs(ctx, rnd, conc, reads_per_state, kind=None):
    r, nodes, edges = tlc.dump_graph("LazyMC", "LazyMC.cfg", workers=4, timeout=600)
    if r.violated or not r.completed:
        ctx.machinery_failure("LazyMC violates its own law %r\n%s" % (r.violated, r.raw[-1500:]))
    ctx.add_mc(r, "LazyMC: all orders of writes to three leaf chains, reads anywhere; WriteLaw, ReadLaw, Closed")
    adj = {}
    init = None
    for k, s in nodes.items():
        if s["tree"] == ("set", []):
            init = k
    for (u, lab, v) in edges:
        if lab.startswith("Write") and u != v:
            adj.setdefault(u, []).append((lab, v))
    from .. import tlaval
    path = {init: []}
    q = [init]
    while q:
        u = q.pop(0)
        for lab, v in adj.get(u, []):
            if v not in path:
                args = tlaval.parse("<<" + lab[lab.index("(") + 1:lab.rindex(")")] + ">>")
                leaf = ABS_LEAF[tuple(args[0])]
                val = "".join(chr(c) for c in args[1])
                path[v] = path[u] + [("W", leaf, val)]
                q.append(v)
    chains = []
    for c in conc["L"]:
        for k in range(1, len(c) + 1):
            if c[:k] not in chains:
                chains.append(c[:k])
    chains += conc["ro"]
    jobs = []
    for u, p in path.items():
        allreads = [("R", c, h) for c in chains for h in READ_HOWS]
        rnd.shuffle(allreads)
        assigns = [("A", i, v) for i in range(len(ASSIGN.get(kind, []))) for v in ("2020",)]
        for op in allreads[:reads_per_state] + [("W", i, v) for i in range(3) for v in ("1", "2")] + assigns:
            # reads sprinkled before the writes of the prefix: the traversal machinery has hidden state
            pre = []
            for w in p:
                for _ in range(rnd.randint(0, 2)):
                    pre.append(rnd.choice(allreads))
                pre.append(w)
            jobs.append((pre + [op], 0))
    return jobs


def walk_jobs(rnd, conc, n, depth, kind=None):
    chains = []
    for c in conc["L"]:
        for k in range(1, len(c) + 1):
            if c[:k] not in chains:
                chains.append(c[:k])
    chains += conc["ro"]
    jobs = []
    for _ in range(n):
        ops = []
        for _ in range(depth):
            if rnd.random() < 0.08 and ASSIGN.get(kind):
                ops.append(("A", rnd.randrange(len(ASSIGN[kind])), rnd.choice(["2020", "2021"])))
            elif rnd.random() < 0.25:
                ops.append(("W", rnd.randrange(3), rnd.choice("12")))
            else:
                ops.append(("R", rnd.choice(chains), rnd.choice(READ_HOWS)))
        jobs.append((ops, 0))
    return jobs


def signature(e, clause):
    return {"clause": clause, "op": e["op"], "how": e["how"], "kind": e["kind"], "ver": e["ver"], "strict": e["strict"],
            "path": ".".join(e["path"]), "outcome": e["outcome"]}


def run(ctx):
    rnd = random.Random(ctx.seed + 11)
    quick = ctx.tier == "quick"
    versions = ["2.5"] if quick else ["2.5", "2.5.1"]      # (the chains are those of 2.5, which 2.5.1 shares)
    events = []
    steps = 0
    for kind, conc in CONC.items():
        jobs = graph_jobs(ctx, rnd, conc, 18 if quick else 200, kind)
        jobs += walk_jobs(rnd, conc, 12 if quick else 150, 25 if quick else 40, kind)
        for version in versions:
            try:
                make_root(kind, version, False)
            except Exception:
                continue        # (the version does not define this root: QPD before 2.4, OML_O33 before 2.5)
            for strict in (False, True):
                chunks = [(kind, version, strict, jobs[k::16]) for k in range(16)]
                for part in pmap(_chunk, chunks):
                    for e in part:
                        if "harness_error" in e:
                            ctx.machinery_failure("harness error %s in %s" % (e["harness_error"], e["ops"][-2:]))
                            continue
                        steps += 1
                        events.append(e)
    for part in pmap(_same_chunk, [(version, strict) for version in versions for strict in (False, True)]):
        events.extend(part)
        steps += len(part)
    # identical observations are judged once
    import json
    uniq = {}
    for e in events:
        uniq.setdefault(json.dumps(e, sort_keys=True), e)
    events = list(uniq.values())
    for i, e in enumerate(events):
        e["id"] = i + 1
    ctx.evaluations += steps
    ctx.extra["steps_executed_on_impl"] = steps
    failed, _ = judge(ctx, "LazyTrace", "LazyTrace.cfg", events)
    byid = {e["id"]: e for e in events}
    for e in events:
        ctx.nontrivial((e["op"], e["how"], e["kind"], e["ver"], e["strict"], ".".join(e["path"]), len(e["pre"])))
    for i, clause in sorted(failed.items()):
        e = byid[i]
        ctx.fail(signature(e, clause), {"event": e, "clause": clause})
    for e in events[:2] + events[-2:]:
        ctx.sample({"kind": e["kind"], "op": e["op"], "how": e["how"], "path": e["path"],
                    "enc_after": "".join(chr(c) for c in e.get("encpost", e.get("encb", []))), "rows_after": len(e["post"])})
    ctx.rule = ("LazyMC graph states (which of three leaf chains are materialised, with which value) x reads (every "
                "prefix of the chains + never-written chains) x 15 ways of reading, and writes of each leaf; random "
                "reads interleaved before every write; random walks; on Segment PID, Field PID_3, Message ADT_A01 "
                "and OML_O33 (groups), both levels; non-trivial = distinct (op, way, root kind, version, level, path, "
                "size of the tree before)")
    ctx.assumptions += ["projection = recursive .children (holders of base datatype values skipped), to_er7 and "
                        "validate(return_errors=True) of the root"]
