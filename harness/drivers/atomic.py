"""Rejectable operations outside the container model (C12): targets in several states x operations that can be
refused, observed before and after; judged by AtomicTrace (TLC)."""
import random
from ..common import cps, import_hl7apy, exc_name


def tree_of(el, depth=0):
    out = []
    for ch in el.children:
        out.append([depth, ch.name or "?", ch.classname])
        if ch.classname != "SubComponent" and depth < 4:
            out.extend(tree_of(ch, depth + 1))
    return out


def targets(v, L):
    """(name, factory) -> (root, target)"""
    import_hl7apy()
    from hl7apy.core import Message, Segment, Field, Component, Group

    def seg_alone():
        s = Segment("PID", version=v, validation_level=L)
        s.pid_1 = "1"
        s.add_field("pid_3").cx_1 = "A"
        s.add_field("pid_3").cx_1 = "B"
        s.pid_5 = "D^J"
        return s, s

    def seg_in_msg():
        m = Message("ADT_A01", version=v, validation_level=L)
        m.msh.msh_7 = "20200101"
        m.evn.evn_2 = "20200101"
        p = m.add_segment("PID")
        p.pid_1 = "1"
        p.add_field("pid_3").cx_1 = "A"
        p.pid_5 = "D^J"
        return m, p

    def field_in_seg():
        s, _ = seg_alone()
        return s, s.pid_3[0]

    def field_alone():
        f = Field("PID_3", version=v, validation_level=L)
        f.cx_1 = "A"
        f.cx_4.hd_1 = "N"
        f.cx_4.hd_2 = "U"
        return f, f

    def comp_in_field():
        f, _ = field_alone()
        return f, f.cx_4[0]

    def group():
        g = Group("ADT_A01_INSURANCE", version=v, validation_level=L)
        g.in1.in1_1 = "1"
        g.add_segment("IN3").in3_1 = "1"
        return g, g

    def msg():
        m, p = seg_in_msg()
        return m, m
    return [("segment", seg_alone), ("segment_in_message", seg_in_msg), ("field_in_segment", field_in_seg), ("field", field_alone),
            ("component_in_field", comp_in_field), ("group", group), ("message", msg)]


def operations(v, L, other):
    import_hl7apy()
    from hl7apy.core import Segment, Field, Component, SubComponent, Group
    long_text = "x" * 300
    ops = [
        ("children=[ok, foreign]", lambda t: setattr(t, "children", [type(c)(c.name, version=v, validation_level=L) for c in list(t.children)[:1]] + [Field("NK1_2", version=v, validation_level=L)])),
        ("children=[ok, other level]", lambda t: setattr(t, "children", [type(c)(c.name, version=v, validation_level=L) for c in list(t.children)[:1]] + [type(list(t.children)[0])(list(t.children)[0].name, version=v, validation_level=other)])),
        ("children=[wrong class]", lambda t: setattr(t, "children", [SubComponent(datatype="ST", version=v, validation_level=L), Group("ADT_A01_INSURANCE", version=v, validation_level=L)])),
        ("value=text of another element", lambda t: setattr(t, "value", "NK1|1|A^B")),
        ("value=over-long leaf", lambda t: setattr(t, "value", (t.name[:3] + "|1||" + long_text) if t.classname == "Segment" else long_text + "^" + long_text)),
        ("value=invalid date", lambda t: setattr(t, "value", "PID|1||||||notadate" if t.classname == "Segment" else "notadate^x^y^z^1^2^3^4^5^6^7^8^9^0^a^b")),
        ("datatype=CE", lambda t: setattr(t, "datatype", "CE")),
        ("datatype=ST", lambda t: setattr(t, "datatype", "ST")),
        ("datatype=same", lambda t: setattr(t, "datatype", t.datatype)),
        ("del absent child", lambda t: delattr(t, {"Segment": "pid_30", "Field": "cx_9", "Component": "hd_3", "Group": "in2", "Message": "pv2"}.get(t.classname, "zz_1"))),
        ("del foreign name", lambda t: delattr(t, "nk1_2")),
        ("set foreign name", lambda t: setattr(t, "nk1_2", "x")),
        ("add wrong class", lambda t: t.add(Group("ADT_A01_INSURANCE", version=v, validation_level=L))),
        ("add other version", lambda t: t.add(type(list(t.children)[0])(list(t.children)[0].name, version=("2.4" if v != "2.4" else "2.5"), validation_level=L))),
        ("proxy write of over-long value", lambda t: setattr(getattr(t, {"Segment": "pid_23", "Field": "cx_2", "Component": "hd_3", "Group": "in2", "Message": "pv1"}.get(t.classname, "zz_1")), "value", long_text if t.classname != "Group" and t.classname != "Message" else "XXX|" + long_text)),
        ("proxy write of invalid date", lambda t: setattr(getattr(t, {"Segment": "pid_7", "Field": "cx_7", "Component": "hd_3", "Group": "in2", "Message": "pv1"}.get(t.classname, "zz_1")), "value", "notadate" if t.classname in ("Segment", "Field") else "PID|x")),
        ("index set far away", lambda t: getattr(t, (list(t.children)[0].name or "x").lower()).__setitem__(7, Field("NK1_2", version=v, validation_level=L))),
        ("children.insert foreign", lambda t: t.children.insert(0, Field("NK1_2", version=v, validation_level=L))),
        ("children[0]=foreign text", lambda t: t.children.__setitem__(0, "NK1|zzz" if t.classname in ("Group", "Message") else Field("NK1_2", version=v, validation_level=L))),
        ("pop out of range", lambda t: t.children.pop(50)),
    ]
    return ops


def events_for(v):
    import_hl7apy()
    from hl7apy.consts import VALIDATION_LEVEL as VL
    out = []
    for L, other, ln in ((VL.TOLERANT, VL.STRICT, "T"), (VL.STRICT, VL.TOLERANT, "S")):
        for tname, mk in targets(v, L):
            for oname, op in operations(v, L, other):
                try:
                    root, t = mk()
                except Exception as ex:
                    out.append({"harness_note": "target %s %s: %s" % (tname, ln, exc_name(ex))})
                    continue
                e = {"target": tname, "op": oname, "lvl": ln, "v": v, "enc_before": cps(t.to_er7()), "tree_before": tree_of(t),
                     "root_before": cps(root.to_er7())}
                try:
                    op(t)
                    e["outcome"] = "ok"
                except Exception as ex:
                    e["outcome"] = exc_name(ex)
                try:
                    e["enc_after"] = cps(t.to_er7())
                    e["tree_after"] = tree_of(t)
                    e["root_after"] = cps(root.to_er7())
                except Exception as ex:
                    e["enc_after"] = cps("<to_er7 raised %s>" % exc_name(ex))
                    e["tree_after"] = []
                    e["root_after"] = []
                out.append(e)
    return out
