"""Rejectable operations outside the container model (C12): targets in several states x operations that can be
refused, observed before and after; judged by AtomicTrace (TLC)."""
import random
from ..common import cps, import_hl7apy, exc_name


def tree_of(el, depth=0):
    """recursive projection: level, name, class, and whether the listed child reports this element as its parent"""
    out = []
    for ch in el.children:
        out.append([depth, ch.name or "?", ch.classname, bool(ch.parent is el)])
        if ch.classname != "SubComponent" and depth < 4:
            out.extend(tree_of(ch, depth + 1))
    return out


def links_of(roots):
    """every (lister, listed child) pair below the given elements: [id of lister, id of child, child.parent is lister,
    same version and validation level]; ids are small numbers in order of first appearance"""
    ids = {}
    rows = []

    def num(x):
        return ids.setdefault(id(x), len(ids) + 1)

    def walk(el, depth):
        for ch in el.children:
            rows.append([num(el), num(ch), bool(ch.parent is el),
                         bool(ch.version == el.version and ch.validation_level == el.validation_level)])
            if ch.classname != "SubComponent" and depth < 4:
                walk(ch, depth + 1)
    for r in roots:
        if r is not None:
            walk(r, 0)
    return rows


def targets(v, L):
    """(name, factory) -> (root, target)"""
    import_hl7apy()
    from hl7apy.core import Message, Segment, Field, Component, Group

    def seg_alone():
        s = Segment("PID", version=v, validation_level=L)
        s.pid_1 = "1"
        s.add_field("pid_3").cx_1 = "A"
        s.add_field("pid_3").cx_1 = "B"
        s.pid_5 = "D^J"
        return s, s

    def seg_in_msg():
        m = Message("ADT_A01", version=v, validation_level=L)
        m.msh.msh_7 = "20200101"
        m.evn.evn_2 = "20200101"
        p = m.add_segment("PID")
        p.pid_1 = "1"
        p.add_field("pid_3").cx_1 = "A"
        p.pid_5 = "D^J"
        return m, p

    def field_in_seg():
        s, _ = seg_alone()
        return s, s.pid_3[0]

    def field_alone():
        f = Field("PID_3", version=v, validation_level=L)
        f.cx_1 = "A"
        f.cx_4.hd_1 = "N"
        f.cx_4.hd_2 = "U"
        return f, f

    def comp_in_field():
        f, _ = field_alone()
        return f, f.cx_4[0]

    def group():
        g = Group("ADT_A01_INSURANCE", version=v, validation_level=L)
        g.in1.in1_1 = "1"
        g.add_segment("IN3").in3_1 = "1"
        return g, g

    def msg():
        m, p = seg_in_msg()
        return m, m

    def seg_empty():
        s = Segment("PID", version=v, validation_level=L)
        return s, s

    def group_empty_in_msg():
        m, p = seg_in_msg()
        g = m.add_group("ADT_A01_INSURANCE")
        return m, g

    def qpd():
        s = Segment("QPD", version=v, validation_level=L)
        s.qpd_1 = "Q22^Find"
        s.qpd_4 = "x"
        return s, s

    def sub_in_msg():
        m, p = seg_in_msg()
        f = p.pid_3[0]
        f.cx_4.hd_2 = "1.2.3"
        f.cx_4.hd_1 = "HOSP"
        return m, f.cx_4.hd_2[0]

    def zseg_in_msg():
        m, p = seg_in_msg()
        z = m.add_segment("ZIN")
        z.zin_1 = "a"
        return m, z
    return [("empty_segment", seg_empty), ("empty_group_in_message", group_empty_in_msg), ("open_ended_segment", qpd),
            ("z_segment_in_message", zseg_in_msg), ("subcomponent_in_message", sub_in_msg), ("segment", seg_alone), ("segment_in_message", seg_in_msg), ("field_in_segment", field_in_seg), ("field", field_alone),
            ("component_in_field", comp_in_field), ("group", group), ("message", msg)]


def _wrong_dt(v, L):
    """a datatype object whose class fits none of the leaves it is assigned to below (they are SI / ST / IS)"""
    from hl7apy.factories import datatype_factory
    return datatype_factory("DT", "20200101", v, L)


def _existing_leaf(t):
    """an existing, valued leaf holder below the target (writing through a child that does not exist is another probe)"""
    x = (t.pid_1 if t.classname == "Segment" and t.name == "PID" else t.cx_1 if t.classname == "Field" and t.name == "PID_3"
         else t.hd_1 if t.classname == "Component" else t)
    if x is not t and not len(x):
        raise LookupError("no such leaf in this target")
    return x[0] if x is not t else x


def _msh(t):
    if t.classname != "Message":
        raise LookupError("no header in this target")
    return t.msh


def _copy_two(t, v, by_index):
    """t.<child> = <the children of that name of another element>, which holds two repetitions, the second of which a
    STRICT target cannot take (the child is not repeatable)"""
    from hl7apy.consts import VALIDATION_LEVEL as VL
    nm, adder = {"Segment": ("pid_1", "add_field"), "Field": ("cx_1", "add_component"),
                 "Component": ("hd_1", "add_subcomponent")}.get(t.classname, (None, None))
    if nm is None or (t.classname == "Segment" and t.name != "PID") or (t.classname == "Field" and t.name != "PID_3"):
        raise LookupError("no such child in this target")
    src = type(t)(t.name, version=v, validation_level=VL.TOLERANT)
    getattr(src, adder)(nm.upper()).value = "7"
    getattr(src, adder)(nm.upper()).value = "8"
    if by_index:
        getattr(t, nm)[0] = getattr(src, nm)
    else:
        setattr(t, nm, getattr(src, nm))


OTHERS = []      # further elements an operation involved (the parent that refused, ...): their listings are observed too


def operations(v, L, other):
    import_hl7apy()
    from hl7apy.core import Segment, Field, Component, SubComponent, Group
    long_text = "x" * 300
    ops = [
        ("children=[ok, foreign]", lambda t: setattr(t, "children", [type(c)(c.name, version=v, validation_level=L) for c in list(t.children)[:1]] + [Field("NK1_2", version=v, validation_level=L)])),
        ("children=[ok, other level]", lambda t: setattr(t, "children", [type(c)(c.name, version=v, validation_level=L) for c in list(t.children)[:1]] + [type(list(t.children)[0])(list(t.children)[0].name, version=v, validation_level=other)])),
        ("children=[wrong class]", lambda t: setattr(t, "children", [SubComponent(datatype="ST", version=v, validation_level=L), Group("ADT_A01_INSURANCE", version=v, validation_level=L)])),
        ("value=text of another element", lambda t: setattr(t, "value", "NK1|1|A^B")),
        ("value=over-long leaf", lambda t: setattr(t, "value", (t.name[:3] + "|1||" + long_text) if t.classname == "Segment" else long_text + "^" + long_text)),
        ("value=invalid date", lambda t: setattr(t, "value", "PID|1||||||notadate" if t.classname == "Segment" else "notadate^x^y^z^1^2^3^4^5^6^7^8^9^0^a^b")),
        ("datatype=CE", lambda t: setattr(t, "datatype", "CE")),
        ("datatype=ST", lambda t: setattr(t, "datatype", "ST")),
        ("datatype=same", lambda t: setattr(t, "datatype", t.datatype)),
        ("del absent child", lambda t: delattr(t, {"Segment": "pid_30", "Field": "cx_9", "Component": "hd_3", "Group": "in2", "Message": "pv2"}.get(t.classname, "zz_1"))),
        ("del foreign name", lambda t: delattr(t, "nk1_2")),
        ("set foreign name", lambda t: setattr(t, "nk1_2", "x")),
        ("add wrong class", lambda t: t.add(Group("ADT_A01_INSURANCE", version=v, validation_level=L))),
        ("add other version", lambda t: t.add(type(list(t.children)[0])(list(t.children)[0].name, version=("2.4" if v != "2.4" else "2.5"), validation_level=L))),
        ("proxy write of over-long value", lambda t: setattr(getattr(t, {"Segment": "pid_23", "Field": "cx_2", "Component": "hd_3", "Group": "in2", "Message": "pv1"}.get(t.classname, "zz_1")), "value", long_text if t.classname != "Group" and t.classname != "Message" else "XXX|" + long_text)),
        ("proxy write of invalid date", lambda t: setattr(getattr(t, {"Segment": "pid_7", "Field": "cx_7", "Component": "hd_3", "Group": "in2", "Message": "pv1"}.get(t.classname, "zz_1")), "value", "notadate" if t.classname in ("Segment", "Field") else "PID|x")),
        ("index set far away", lambda t: getattr(t, (list(t.children)[0].name or "x").lower()).__setitem__(7, Field("NK1_2", version=v, validation_level=L))),
        ("children.insert foreign", lambda t: t.children.insert(0, Field("NK1_2", version=v, validation_level=L))),
        ("children[0]=foreign text", lambda t: t.children.__setitem__(0, "NK1|zzz" if t.classname in ("Group", "Message") else Field("NK1_2", version=v, validation_level=L))),
        ("pop out of range", lambda t: t.children.pop(50)),
        ("value=text whose later part is refused", lambda t: setattr(t, "value", {
            "Segment": t.name + "|1||||A^B|||M~F~G" if t.name == "PID" else t.name + "|a|b|" + "x" * 70000,
            "Group": "IN1|1\rIN2|1\rIN2|2\rNK1|9", "Message": "MSH|^~\\&|A\rEVN|1\rEVN|2\rEVN|3",
            "Field": "1^2^3^A&B&C&D&E&F&G^MR^^^^^^^^^^^^^^^x", "Component": "N&U&T&X&Y&Z"}.get(t.classname, "x"))),
        ("value=object that is no text", lambda t: setattr(t, "value", object())),
        ("value=datatype object of another class", lambda t: setattr(_existing_leaf(t), "value", _wrong_dt(v, L))),
        # the same object assigned through the PARENT's attribute: to a child that exists and to one that does not
        ("<existing child>=datatype object of another class", lambda t: setattr(t, {"Segment": "pid_1" if t.name == "PID" else "zz_1", "Field": "cx_1", "Component": "hd_1"}.get(t.classname, "zz_1"), _wrong_dt(v, L))),
        ("<absent child>=datatype object of another class", lambda t: setattr(t, {"Segment": "pid_23" if t.name == "PID" else "zz_1", "Field": "cx_2", "Component": "hd_3"}.get(t.classname, "zz_1"), _wrong_dt(v, L))),
        ("<existing child>[0]=datatype object of another class", lambda t: getattr(t, {"Segment": "pid_1" if t.name == "PID" else "zz_1", "Field": "cx_1", "Component": "hd_1"}.get(t.classname, "zz_1")).__setitem__(0, _wrong_dt(v, L))),
        ("<child>=the repetitions of a TOLERANT element of the same name (two of them)", lambda t: _copy_two(t, v, False)),
        ("<child>[0]=the repetitions of a TOLERANT element of the same name (two of them)", lambda t: _copy_two(t, v, True)),
        ("msh_2.value=over-long text", lambda t: setattr(_msh(t).msh_2, "value", long_text)),
        ("msh_2.value=a number", lambda t: setattr(_msh(t).msh_2, "value", 5)),
        ("msh_1.value=over-long text", lambda t: setattr(_msh(t).msh_1, "value", long_text)),
        ("msh_1.value=a number", lambda t: setattr(_msh(t).msh_1, "value", 5)),
        ("add a far additional field of another version", lambda t: t.add(Field("%s_%d" % (t.name, 40), version=("2.4" if v != "2.4" else "2.5"), validation_level=L))),
        ("add a far additional field of another level", lambda t: t.add(Field("%s_%d" % (t.name, 45), version=v, validation_level=other))),
    ]

    # an ATTACHED child of the target is handed to another parent that refuses it (other level / other version)
    def refusing(t, how_differs):
        kw = {"version": v, "validation_level": L}
        if how_differs == "level":
            kw["validation_level"] = other
        else:
            kw["version"] = "2.4" if v != "2.4" else "2.5"
        if t.classname in ("Field", "Component"):
            return type(t)(t.name, datatype=None, **kw)
        return type(t)(t.name, **kw)

    def mover(how, how_differs):
        def op(t):
            c = list(t.children)[-1]
            b = refusing(t, how_differs)
            OTHERS.append(b)
            if how == "add":
                b.add(c)
            elif how == "parent":
                c.parent = b
            elif how == "insert":
                b.children.insert(0, c)
            elif how == "append":
                b.children.append(c)
            elif how == "setattr":
                setattr(b, c.name.lower(), c)
            elif how == "children":
                b.children = [c]
        op.other = lambda t: None
        return op
    for how in ("add", "parent", "insert", "append", "setattr", "children"):
        for hd in ("level", "version"):
            ops.append(("move last child to a parent of another %s by %s" % (hd, how), mover(how, hd)))

    # a refused element assigned below a child of the target that does not exist yet (reached by traversal only)
    ABSENT = {"Message": ("pv2", "pv2_3", Field, "PV2_3"), "Group": ("in2", "in2_1", Field, "IN2_1"),
              "Segment": ("pid_9", "xpn_1", Component, "XPN_1"), "Field": ("cx_6", "hd_1", SubComponent, "HD_1")}

    def below_absent(how_differs, deep):
        def op(t):
            a, g, cls, nm = ABSENT[t.classname]
            kw = {"version": v, "validation_level": L}
            if how_differs == "level":
                kw["validation_level"] = other
            elif how_differs == "version":
                kw["version"] = "2.4" if v != "2.4" else "2.5"
            bad = cls(nm, **kw) if how_differs != "class" else Group("ADT_A01_INSURANCE", version=v, validation_level=L)
            x = getattr(t, a)
            if deep == "setattr":
                setattr(x, g, bad)
            elif deep == "index":
                getattr(x, g)[0] = bad
            else:
                x.add(bad)
        return op
    for hd in ("level", "version", "class"):
        for deep in ("setattr", "index", "add"):
            ops.append(("assign a refused element below an absent child (%s, %s)" % (hd, deep), below_absent(hd, deep)))
    return ops


def events_for(v):
    import_hl7apy()
    from hl7apy.consts import VALIDATION_LEVEL as VL
    out = []
    for L, other, ln in ((VL.TOLERANT, VL.STRICT, "T"), (VL.STRICT, VL.TOLERANT, "S")):
        for tname, mk in targets(v, L):
            for oname, op in operations(v, L, other):
                try:
                    root, t = mk()
                except Exception as ex:
                    out.append({"harness_note": "target %s %s: %s" % (tname, ln, exc_name(ex))})
                    continue
                e = {"target": tname, "op": oname, "lvl": ln, "v": v, "enc_before": cps(t.to_er7()), "tree_before": tree_of(t),
                     "root_before": cps(root.to_er7()), "trail_before": cps(root.to_er7(trailing_children=True))}
                del OTHERS[:]
                try:
                    op(t)
                    e["outcome"] = "ok"
                except Exception as ex:
                    e["outcome"] = exc_name(ex)
                try:
                    e["links"] = links_of([root] + list(OTHERS))
                except Exception as ex:
                    e["links"] = [[0, 0, False, False]]
                try:
                    e["enc_after"] = cps(t.to_er7())
                    e["tree_after"] = tree_of(t)
                    e["root_after"] = cps(root.to_er7())
                    e["trail_after"] = cps(root.to_er7(trailing_children=True))
                except Exception as ex:
                    e["enc_after"] = cps("<to_er7 raised %s>" % exc_name(ex))
                    e["tree_after"] = []
                    e["root_after"] = []
                    e["trail_after"] = []
                out.append(e)
    return out


ATOMIC_CLAUSES = {"rejected_call_changed_the_encoding", "rejected_call_changed_the_children", "rejected_call_changed_an_ancestor"}
CONSISTENCY_CLAUSES = {"listed_child_reports_another_parent", "element_listed_twice", "mixed_version_or_level_in_one_tree"}


def run_probes(ctx, focus):
    """all probes of all targets, judged by AtomicTrace (TLC); the clauses in `focus` are this property's"""
    from ..common import pmap, judge
    versions = ["2.5"] if ctx.tier == "quick" else ["2.3", "2.5", "2.6", "2.8"]
    events = []
    for part in pmap(events_for, versions):
        for e in part:
            if "harness_note" in e:
                ctx.notes.append(e["harness_note"])
            else:
                events.append(e)
    for i, e in enumerate(events):
        e["id"] = i + 1
    failed, trivial = judge(ctx, "AtomicTrace", "AtomicTrace.cfg", events)
    byid = {e["id"]: e for e in events}
    ctx.evaluations += len(events)
    ctx.extra["atomic_probes"] = len(events)
    ctx.extra["atomic_probes_rejected"] = len(events) - len(trivial)
    for e in events:
        if e["id"] not in trivial or focus is CONSISTENCY_CLAUSES:
            ctx.nontrivial(("atomic", e["target"], e["op"], e["lvl"], e["v"]))
    for i, clause in sorted(failed.items()):
        e = byid[i]
        for part_ in str(clause).split("+"):
            if part_ in focus:
                ctx.fail({"clause": part_, "target": e["target"], "op": e["op"], "lvl": e["lvl"], "outcome": e["outcome"]},
                         {"clause": part_, "event": {k: (("".join(chr(c) for c in e[k])) if k.startswith(("enc_", "root_")) else e[k])
                                                     for k in e}})
            else:
                ctx.extra.setdefault("other_property_clauses_seen", {}).setdefault(part_, 0)
                ctx.extra["other_property_clauses_seen"][part_] += 1
