"""C14 — name, long name, position and letter case all address the same child.

M: ResolveMC — all 3-row structures over a vocabulary with clashing long names: laws of Resolve!Designates.
T: for every (version, segment) — quick: all segments, fields; thorough: also every complex datatype's components and
   subcomponents — each child is written through one spelling, read and compared through all the others, and
   deleted through yet another; names of other parents and non-existent indices are probed too.  ResolveTrace (TLC)
   computes from the exported rows which child each spelling designates (unique long name, not an attribute name,
   not shadowed) and decides every probe."""
import random

from .. import tables as T
from .. import tlc
from ..common import cps, pmap, judge, import_hl7apy, exc_name

VAL = "2020"


def spellings(name, long_name):
    sp = [("name_upper", name.upper()), ("name_lower", name.lower()), ("name_mixed", name[:1].upper() + name[1:].lower())]
    if long_name:
        ln = long_name
        sp += [("long_upper", ln.upper()), ("long_lower", ln.lower()),
               ("long_mixed", "".join(c.upper() if i % 2 else c.lower() for i, c in enumerate(ln)))]
    return sp


def reach(parent, attr):
    """-> (got, element) : got = child name reached, '-' for ChildNotFound/ChildNotValid, '!' otherwise"""
    from hl7apy.exceptions import ChildNotFound, ChildNotValid
    try:
        px = getattr(parent, attr)
    except (ChildNotFound, ChildNotValid):
        return "-", None, ""
    except Exception as ex:
        return "!", None, exc_name(ex)
    try:
        if px is None:
            return "-", None, "None"
        name = px.element_name if hasattr(px, "element_name") else getattr(px, "name", "?")
        el = px[0] if len(px) else None
        return name, el, ""
    except Exception as ex:
        return "!", None, exc_name(ex)


def probe_parent(parent_factory, rows, attrs, foreign, rnd, positional=None):
    """rows: [(name, long)]; returns list of probes for one parent kind"""
    from hl7apy.exceptions import ChildNotFound, ChildNotValid
    probes = []
    for idx, (name, long_name) in enumerate(rows):
        sp = spellings(name, long_name)
        if positional and name in positional:
            sp = sp + [("positional_" + k, v) for k, v in positional[name]]
        parent = parent_factory()
        # write through one spelling (cycling), read through all, delete through another
        w = sp[idx % len(sp)]
        wrote = True
        try:
            setattr(parent, w[1], VAL)
        except (ChildNotFound, ChildNotValid):
            wrote = False
            probes.append({"t": w[1].upper(), "how": "write:" + w[0], "got": "-", "same": True, "val": "", "want": "",
                           "positional": w[0].startswith("positional"), "expect": name})
        except Exception as ex:
            wrote = False
            probes.append({"t": w[1].upper(), "how": "write:" + w[0], "got": "!", "same": True, "val": exc_name(ex), "want": "",
                           "positional": w[0].startswith("positional"), "expect": name})
        canon = None
        if wrote:
            g, canon, _ = reach(parent, name.lower())
        for (how, text) in sp:
            g, el, exn = reach(parent, text)
            val = ""
            try:
                val = el.to_er7().strip("^&") if el is not None else ""
            except Exception:
                val = "?"
            probes.append({"t": text.upper(), "wt": w[1].upper() if wrote else "", "wpos": w[0].startswith("positional"),
                           "how": ("read_after_write:" if wrote else "read:") + how, "got": g,
                           "same": (el is canon) if (wrote and g not in "-!") else True,
                           "val": val if wrote else "", "want": VAL if wrote else "",
                           "positional": how.startswith("positional"), "expect": name})
        # creation through the add_<child> helper, by every spelling, on a fresh parent each time
        for (how, text) in sp:
            if how.startswith("positional"):
                continue
            fresh = parent_factory()
            adder = {"Segment": "add_field", "Field": "add_component", "Component": "add_subcomponent"}.get(fresh.classname)
            if adder is None:
                break
            try:
                ch = getattr(fresh, adder)(text)
                g, el, _ = reach(fresh, name.lower())
                probes.append({"t": text.upper(), "how": "add:" + how, "got": ch.name or "?", "same": el is ch, "val": "", "want": "",
                               "positional": False, "expect": name})
            except (ChildNotFound, ChildNotValid):
                probes.append({"t": text.upper(), "how": "add:" + how, "got": "-", "same": True, "val": "", "want": "",
                               "positional": False, "expect": name})
            except Exception as ex:
                probes.append({"t": text.upper(), "how": "add:" + how, "got": "!", "same": True, "val": exc_name(ex), "want": "",
                               "positional": False, "expect": name})
        if wrote and canon is not None:     # deleting is probed when the child exists under its own name
            d = sp[(idx + 2) % len(sp)]
            try:
                delattr(parent, d[1])
                g2, el2, _ = reach(parent, name.lower())
                gone = el2 is None
                probes.append({"t": d[1].upper(), "how": "delete:" + d[0], "got": name if gone else "-", "same": True,
                               "val": "" if gone else "still there", "want": "", "positional": d[0].startswith("positional"),
                               "expect": name})
            except (ChildNotFound, ChildNotValid):
                probes.append({"t": d[1].upper(), "how": "delete:" + d[0], "got": "-", "same": True, "val": "", "want": "",
                               "positional": d[0].startswith("positional"), "expect": name})
            except Exception as ex:
                probes.append({"t": d[1].upper(), "how": "delete:" + d[0], "got": "!", "same": True, "val": exc_name(ex),
                               "want": "", "positional": d[0].startswith("positional"), "expect": name})
    parent = parent_factory()
    for f in foreign:
        g, el, exn = reach(parent, f)
        probes.append({"t": f.upper(), "how": "read_foreign", "got": g, "same": True, "val": exn, "want": exn,
                       "positional": False, "expect": "-"})
        try:
            setattr(parent, f, VAL)
            probes.append({"t": f.upper(), "how": "write_foreign", "got": "created", "same": True, "val": "", "want": "",
                           "positional": False, "expect": "-"})
            parent = parent_factory()
        except (ChildNotFound, ChildNotValid):
            probes.append({"t": f.upper(), "how": "write_foreign", "got": "-", "same": True, "val": "", "want": "",
                           "positional": False, "expect": "-"})
        except Exception as ex:
            probes.append({"t": f.upper(), "how": "write_foreign", "got": "!", "same": True, "val": exc_name(ex),
                           "want": exc_name(ex), "positional": False, "expect": "-"})
    return probes


def _noise(v):
    """before anything of version v is addressed, complex components of ANOTHER version are written through their fields
    (once per datatype): whatever the library remembers from that must not change what a name designates in v"""
    from hl7apy.core import Field
    done = set()
    for o in ("2.5" if v >= "2.7" else "2.7", "2.3.1" if v != "2.3.1" else "2.4"):
        for seg in T.seg_names(o):
            for r in (T.seg_rows(o, seg) or []):
                if r["kind"] != "complex" or r["max"] == 0 or (o, r["dt"]) in done or seg == "MSH":
                    continue
                done.add((o, r["dt"]))
                for c in (T.dt_rows(o, r["dt"]) or []):
                    if c["kind"] == "complex":
                        try:
                            setattr(Field(r["name"], version=o), c["name"].lower(), "a&b")
                        except Exception:
                            pass


def _version_chunk(args):
    import_hl7apy()
    from hl7apy.core import Segment, Field, Component
    v, segs, dts, seed = args
    _noise(v)
    rnd = random.Random("%s-%s" % (seed, v))
    events = []
    allsegs = T.seg_names(v)
    for seg in segs:
        rows = T.seg_rows(v, seg)
        if not rows or seg == "MSH":
            continue
        try:
            Segment(seg, version=v)
        except Exception:
            continue
        other = rnd.choice([s for s in allsegs if s != seg and T.seg_rows(v, s)])
        open_ended = rows[-1]["kind"] == "varies"
        foreign = [other.lower() + "_1", "%s_%d" % (seg.lower(), rows[-1]["i"] + 7) if not open_ended else other.lower() + "_2",
                   "cx_1", "no_such_long_name", seg.lower() + "_0"]
        positional = {}
        for r in rows:
            if r["kind"] == "complex":
                pass
        attrs = [a.upper() for a in Segment.cls_attrs]
        try:
            probes = probe_parent(lambda: Segment(seg, version=v), [(r["name"], r["long"]) for r in rows], attrs, foreign, rnd)
            events.append({"kind": "segment", "v": v, "parent": seg, "rows": [[r["name"], r["long"] or ""] for r in rows],
                           "attrs": attrs, "probes": probes})
        except Exception as ex:
            events.append({"harness_error": repr(ex), "where": "%s %s" % (v, seg)})
    # fields of a BASE datatype: <field>_1 designates their only component (named after the datatype); which datatypes are
    # base depends on the version (TN up to 2.4, IS from 2.3, DTM from 2.5 ...)
    pr = []
    done = set()
    for seg in segs:
        for r in (T.seg_rows(v, seg) or []):
            if r["kind"] != "base" or r["max"] == 0 or r["dt"] in done or r["name"] in ("MSH_1", "MSH_2"):
                continue
            done.add(r["dt"])
            val = {"SI": "1", "NM": "1", "DT": "20200101", "TM": "1201", "DTM": "20200101", "TS": "20200101"}.get(r["dt"], "A")
            path = "%s_1" % r["name"].lower()
            for spell in (path, path.upper()):
                try:
                    f = Field(r["name"], version=v)
                    setattr(f, spell, val)
                    px = getattr(f, spell)
                    pr.append({"t": spell.upper(), "how": "positional_on_base_field", "got": px.element_name if len(px) else "-",
                               "same": True, "val": px[0].to_er7() if len(px) else "", "want": val, "positional": True, "expect": r["dt"]})
                except Exception as ex:
                    pr.append({"t": spell.upper(), "how": "positional_on_base_field", "got": "!", "same": True, "val": exc_name(ex),
                               "want": "", "positional": True, "expect": r["dt"]})
    if pr:
        events.append({"kind": "base_field_path", "v": v, "parent": "fields of base datatypes", "rows": [], "attrs": [], "probes": pr})
    # a field whose complex datatype is overridden (TOLERANT): the components of the NEW datatype, by every spelling
    for (seg, fname, i, dt) in dts[:2]:
        others = [d for d in T.complex_datatypes(v) if d != dt and T.dt_rows(v, d)]
        if not others or not dt:
            continue
        nd = rnd.choice(others)
        comps = T.dt_rows(v, nd)
        rows = [(c["name"], c["long"]) for c in comps]
        attrs = [a.upper() for a in Field.cls_attrs]
        olds = T.dt_rows(v, dt) or []
        foreign = ["%s_1" % dt.lower()] + [c["long"].lower() for c in olds[:2] if c.get("long") and c["long"] not in [x.get("long") for x in comps]]
        foreign = [x for x in foreign if x.upper() not in attrs]        # (a long name equal to an attribute name is shadowed)
        try:
            probes = probe_parent(lambda: Field(fname, datatype=nd, version=v), rows, attrs, foreign, rnd)
            events.append({"kind": "field_overridden", "v": v, "parent": "%s(%s->%s)" % (fname, dt, nd), "rows": [[a, b or ""] for a, b in rows],
                           "attrs": attrs, "probes": probes})
        except Exception as ex:
            events.append({"harness_error": repr(ex), "where": "%s %s override %s" % (v, fname, nd)})
    # fields of complex datatype: components by name / long / positional path, subcomponents likewise
    for (seg, fname, i, dt) in dts:
        comps = T.dt_rows(v, dt)
        if not comps:
            continue
        rows = [(c["name"], c["long"]) for c in comps]
        positional = {c["name"]: [("path", "%s_%d" % (fname.lower(), c["j"]))] for c in comps}
        attrs = [a.upper() for a in Field.cls_attrs]
        foreign = ["zz_1", "%s_%d" % (dt.lower(), len(comps) + 5), "%s_%d" % (fname.lower(), len(comps) + 5), "no_such_long_name"]
        other_dt = rnd.choice([d for d in T.complex_datatypes(v) if d != dt])
        foreign.append(other_dt.lower() + "_1")
        # positional paths that belong to OTHER fields: an index that merely starts with this field's index, the next
        # field, the same index in another segment
        foreign += ["%s0_1" % fname.lower(), "%s9_1" % fname.lower(), "%s1_1_1" % fname.lower(),
                    "%s_%d_1" % (seg.lower(), i + 1), "zz9_%d_1" % i]
        try:
            probes = probe_parent(lambda: Field(fname, version=v), rows, attrs, foreign, rnd, positional)
            events.append({"kind": "field", "v": v, "parent": "%s(%s)" % (fname, dt), "rows": [[a, b or ""] for a, b in rows],
                           "attrs": attrs, "probes": probes})
        except Exception as ex:
            events.append({"harness_error": repr(ex), "where": "%s %s" % (v, fname)})
        for c in comps:
            if not c["subs"]:
                continue
            srows = [(s["name"], s["long"]) for s in c["subs"]]
            attrs = [a.upper() for a in Component.cls_attrs]
            foreign = ["zz_1", "%s_%d" % (c["dt"].lower(), len(srows) + 5), "no_such_long_name"]
            try:
                probes = probe_parent(lambda: Component(c["name"], version=v), srows, attrs, foreign, rnd)
                events.append({"kind": "component", "v": v, "parent": "%s(%s)" % (c["name"], c["dt"]),
                               "rows": [[a, b or ""] for a, b in srows], "attrs": attrs, "probes": probes})
            except Exception as ex:
                events.append({"harness_error": repr(ex), "where": "%s %s" % (v, c["name"])})
            # the same component when it arrives by a text assigned through its field (another way of creating it)
            try:
                def via_field(fname=fname, cname=c["name"].lower()):
                    f = Field(fname, version=v)
                    setattr(f, cname, "")
                    return getattr(f, cname)[0]
                probes = probe_parent(via_field, srows, attrs, foreign, rnd)
                events.append({"kind": "component", "v": v, "parent": "%s(%s) assigned through %s" % (c["name"], c["dt"], fname),
                               "rows": [[a, b or ""] for a, b in srows], "attrs": attrs, "probes": probes})
            except Exception as ex:
                events.append({"harness_error": repr(ex), "where": "%s %s via %s" % (v, c["name"], fname)})
            # positional path from the field down to the subcomponent: <field>_<j>_<k>
            try:
                pr = []
                sel = []
                for s in c["subs"][:2] + c["subs"][-2:] + [x for x in c["subs"] if x["k"] in (9, 10, 11, 19, 20)]:
                    if s not in sel:
                        sel.append(s)      # (first, last, and around the positions where the index gets a second digit)
                for s in sel:
                    f = Field(fname, version=v)
                    path = "%s_%d_%d" % (fname.lower(), c["j"], s["k"])
                    setattr(f, path, VAL)
                    sub = getattr(getattr(f, c["name"].lower()), s["name"].lower())
                    got = sub.element_name if len(sub) else "-"
                    val = sub[0].to_er7() if len(sub) else ""
                    g2 = getattr(f, path.upper())
                    pr.append({"t": path.upper(), "how": "positional_sub_write_then_named_read", "got": got,
                               "same": bool(len(sub)) and (g2[0] is sub[0]), "val": val, "want": VAL, "positional": True,
                               "expect": s["name"]})
                events.append({"kind": "field_path", "v": v, "parent": "%s.%s" % (fname, c["name"]),
                               "rows": [[a, b or ""] for a, b in srows], "attrs": [], "probes": pr})
            except Exception as ex:
                events.append({"kind": "field_path", "v": v, "parent": "%s.%s" % (fname, c["name"]), "rows": [], "attrs": [],
                               "probes": [{"t": "", "how": "positional_sub", "got": "!", "same": True, "val": exc_name(ex),
                                           "want": "", "positional": True, "expect": "x"}]})
    return events


def first_failing_probe(e, clause):
    return {}


def signature(e, clause):
    return {"clause": clause, "kind": e["kind"], "v": e["v"], "parent": e["parent"]}


def run(ctx):
    quick = ctx.tier == "quick"
    r = tlc.run("ResolveMC", "ResolveMC.cfg", workers=8, timeout=600)
    if r.violated or not r.completed:
        ctx.machinery_failure("ResolveMC: %r\n%s" % (r.violated, r.raw[-1200:]))
    ctx.add_mc(r, "ResolveMC: all 3-row structures over a clashing vocabulary; NameWins, LongAgrees, UniqueLongResolves, ForeignIsNothing")
    rnd = random.Random(ctx.seed + 14)
    jobs = []
    for v in T.versions():
        segs = T.seg_names(v)
        hosts = {}
        for seg in segs:
            rows = T.seg_rows(v, seg)
            if not rows or seg == "MSH":
                continue
            for r_ in rows:
                if r_["kind"] == "complex" and r_["dt"] not in hosts:
                    hosts[r_["dt"]] = (seg, r_["name"], r_["i"], r_["dt"])
        dts = list(hosts.values())
        if quick:
            rnd.shuffle(dts)
            dts = dts[:12]
        for k in range(2):
            jobs.append((v, segs[k::2], dts[k::2], ctx.seed))
    events = []
    for part in pmap(_version_chunk, jobs, fresh=True):
        for e in part:
            if "harness_error" in e:
                ctx.machinery_failure("harness: %s at %s" % (e["harness_error"], e["where"]))
            else:
                events.append(e)
    for i, e in enumerate(events):
        e["id"] = i + 1
    nprobes = sum(len(e["probes"]) for e in events)
    ctx.evaluations += nprobes
    ctx.extra["probes"] = nprobes
    failed, _ = judge(ctx, "ResolveTrace", "ResolveTrace.cfg", events)
    byid = {e["id"]: e for e in events}
    for e in events:
        for p in e["probes"]:
            ctx.nontrivial((e["kind"], e["v"], e["parent"], p["t"], p["how"]))
    for i, cl in sorted(failed.items()):
        e = byid[i]
        clause, idx = cl if isinstance(cl, tuple) else (cl, 0)
        p = e["probes"][idx - 1] if idx else {}
        sig = signature(e, clause)
        sig.update({"spelling": p.get("t"), "how": p.get("how"), "got": p.get("got"), "expect": p.get("expect")})
        ctx.fail(sig, {"probe": p, "rows": e["rows"], "clause": clause, "parent": e["parent"], "v": e["v"]})
    for e in events[:2]:
        ctx.sample({"kind": e["kind"], "v": e["v"], "parent": e["parent"], "probes": e["probes"][:4]})
    ctx.exhaustive = not quick
    ctx.rule = ("one event per (version, segment) with probes for every field row x {name, long name} x {upper, lower, "
                "mixed case}: written through one spelling, read (object identity and value) through all, deleted through "
                "another; per complex datatype (quick: 12 per version) the same for components (+ positional path "
                "<field>_<j>) and subcomponents (+ <field>_<j>_<k>); foreign names and non-existent indices; distinct by "
                "(kind, version, parent, spelling, way)")
    ctx.assumptions += ["which child a long name designates (uniqueness, clash with attribute names or other rows' names) "
                        "is computed by TLC from the exported rows"]
