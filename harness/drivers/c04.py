"""C04 — validate() accepts conforming messages and pinpoints each structural defect.

M: ValidateMC — the verdict function on a small structure x all inputs: forests built by the prescription only
   draw cardinality errors; a missing / duplicated member is reported exactly when it is missing / duplicated.
R: instances generated from real message structures are parsed, then mutated through the API: a required segment
   removed, a non-repeatable one duplicated, a foreign segment added, an unknown or duplicated field added.
T: for each tree the harness records the projection (rows, per segment its field table and the names of the fields it
   holds), the errors validate(return_errors=True) reports (tokenised to <<kind, parent, child>>), and what the
   raising form / a report file object / a report path give; ValidateTrace (TLC) computes the errors the structure
   prescribes for that tree and decides."""
import io
import os
import random
import re
import tempfile

from .. import tables as T
from .. import tlc
from ..common import cps, pmap, judge, import_hl7apy, exc_name
from . import groups


def tokenise(err):
    s = str(err)
    m = re.match(r"Missing required child (\S+?)\.(\S+)$", s)
    if m:
        return [["missing", m.group(1), m.group(2)]]
    m = re.match(r"Child limit exceeded (\S+?)\.(\S+)$", s)
    if m:
        return [["limit", m.group(1), m.group(2)]]
    m = re.match(r"Datatype (\S+) is not correct for (\S+?)\.(\S+)", s)
    if m:
        return [["datatype", m.group(2), m.group(3)]]
    m = re.match(r"Invalid children detected for <\w+ (\S*?)(?: \(.*?\))?(?: of type \S+)?>: \[(.*)\]$", s)
    if m:
        names = [x.strip().strip("'\"") for x in m.group(2).split(",") if x.strip()]
        return [["invalid", m.group(1), ("?" if n == "None" else n)] for n in names]
    return [["other", s[:60], ""]]


def field_records(seg, v, row, tab):
    """fields of a complex datatype: their components against the datatype's table (missing / limit only: kinds
    FIELD_KINDS); fields whose datatype was overridden, varies fields and fields beyond the table are left out"""
    out = []
    byname = dict((r["name"], r) for r in tab)
    for f in seg.children:
        r = byname.get(f.name)
        if r is None or r["kind"] != "complex" or f.datatype != r["dt"]:
            continue
        comps = T.dt_rows(v, r["dt"])
        if not comps:
            continue
        out.append({"row": row, "name": f.name, "table": [[c["name"], c["min"], c["max"]] for c in comps],
                    "kids": [c.name for c in f.children if c.name and c.name in set(x["name"] for x in comps)], "level": "field"})
    return out


def seg_record(seg, row, tab):
    base = dict((r["name"], r["kind"] == "base") for r in tab)
    last = max([r["i"] for r in tab]) if tab else 0
    open_ended = bool(tab) and tab[-1]["kind"] == "varies"
    extra = []
    for f in seg.children:
        nm = f.name or ""
        if open_ended and nm.startswith(seg.name + "_") and nm[len(seg.name) + 1:].isdigit() and int(nm[len(seg.name) + 1:]) > last:
            extra.append(nm)
    return {"row": row, "name": seg.name, "table": [[r["name"], r["min"], r["max"]] for r in tab],
            "kids": [f.name or "?" for f in seg.children], "extra": sorted(set(extra)),
            "shape": [[f.name, len(list(f.children)), bool(base.get(f.name))] for f in seg.children if f.name in base]}


def project(m, v):
    rows = []
    segs = []
    if m.classname == "Segment":       # a segment validated on its own
        tab = T.seg_rows(v, m.name) if len(m.name or "") == 3 else None
        if tab is not None and not m.is_z_element():
            segs.append(seg_record(m, 0, tab))
            segs.extend(field_records(m, v, 0, tab))
        return rows, segs

    def walk(el, par):
        for ch in el.children:
            kind = "GRP" if ch.classname == "Group" else "SEG"
            nm = ch.name or "?"
            rows.append([nm, kind, par, bool(kind == "SEG" and ch.is_z_element())])
            me = len(rows)
            if kind == "GRP":
                walk(ch, me)
            else:
                tab = T.seg_rows(v, nm) if len(nm) == 3 else None
                if tab is not None and not ch.is_z_element():     # ([] = a segment defined without fields)
                    segs.append(seg_record(ch, me, tab))
                    segs.extend(field_records(ch, v, me, tab))
    walk(m, 0)
    return rows, segs


def observe(m, v, sid, nodes, mode, mutation):
    import_hl7apy()
    rows, segs = project(m, v)
    parents = set([sid]) | set(r[0] for r in rows)
    fparents = set(x["name"] for x in segs if x.get("level") == "field")
    sparents = set(x["name"] for x in segs if x.get("level") != "field")
    e = {"v": v, "sid": sid, "mode": mode, "mutation": mutation, "struct": nodes, "tree": rows, "segs": segs,
         "errors": [], "err_texts": [], "warn_texts": [], "err_texts2": [], "warn_texts2": [], "is_valid": False,
         "raised": "-", "file_lines": [], "path_lines": [], "outcome": "report"}
    try:
        e["enc_before"] = cps(m.to_er7())
        r = m.validate(return_errors=True)
        e["is_valid"] = bool(r.is_valid)
        e["err_texts"] = [str(x) for x in r.errors]
        e["warn_texts"] = [str(x) for x in r.warnings]
        toks = []
        for x in r.errors:
            for t in tokenise(x):
                if t[0] != "other" and t[1] in parents and (t[0] != "datatype" or t[1] in sparents):
                    toks.append(t)
                elif t[0] in ("missing", "limit") and t[1] in fparents:
                    toks.append(t)
        e["errors"] = toks
        r2 = m.validate(return_errors=True)
        e["err_texts2"] = [str(x) for x in r2.errors]
        e["warn_texts2"] = [str(x) for x in r2.warnings]
        try:
            m.validate()
        except Exception as ex:
            e["raised"] = str(ex)
        buf = io.StringIO()
        try:
            m.validate(report_file=buf)
        except Exception:
            pass
        e["file_lines"] = [ln.split(": ", 1) for ln in buf.getvalue().split("\n") if ln]
        fd, path = tempfile.mkstemp(prefix="vf_rep_")
        os.close(fd)
        try:
            try:
                m.validate(report_file=path)
            except Exception:
                pass
            e["path_lines"] = [ln.split(": ", 1) for ln in open(path).read().split("\n") if ln]
        finally:
            os.unlink(path)
        e["enc_after"] = cps(m.to_er7())
    except Exception as ex:
        e["outcome"] = exc_name(ex)
        e.setdefault("enc_before", [])
        e.setdefault("enc_after", [])
    return e


def find_rows(m):
    out = []

    def walk(el):
        for ch in el.children:
            out.append((el, ch))
            if ch.classname == "Group":
                walk(ch)
    walk(m)
    return out


def _chunk(args):
    import_hl7apy()
    from hl7apy.parser import parse_message
    from hl7apy.core import Segment, Field
    v, sids, seed, quick = args
    rnd = random.Random("%s-%s-c04" % (seed, v))
    out = []
    for sid in sids:
        try:
            st = T.structure(v, sid)
            nodes = groups.flatten_structure(st)
        except Exception as ex:
            continue
        if any(n[1] == "SEG" and len(n[0]) != 3 for n in nodes):
            out.append({"harness_note": "skipped %s %s: placeholder segment" % (v, sid)})
            continue
        card = {}
        for n in nodes:
            card.setdefault(n[0], []).append((n[2], n[3]))
        foreign = [s for s in T.seg_names(v) if s not in card and len(s) == 3 and T.seg_rows(v, s) and not s.startswith("Z")]
        insts = groups.instances(st, rnd, True)[:4 if quick else 12]
        for (mode, names, conf) in insts:
            text = "\r".join([groups.msh(v, sid)] + [groups.seg_text(n, i + 1, v) for i, n in enumerate(names[1:])])

            def fresh():
                return parse_message(text, find_groups=True)
            try:
                m = fresh()
            except Exception as ex:
                out.append({"harness_note": "parse failed %s %s %s: %s" % (v, sid, mode, exc_name(ex))})
                continue
            out.append(observe(m, v, sid, nodes, mode, "none"))
            muts = []
            pairs = find_rows(m)
            req = [(k, p, c) for k, (p, c) in enumerate(pairs) if c.classname == "Segment" and c.name != "MSH"
                   and any(mn >= 1 for (mn, mx) in card.get(c.name, []))]
            one = [(k, p, c) for k, (p, c) in enumerate(pairs) if c.classname == "Segment" and c.name != "MSH"
                   and any(mx == 1 for (mn, mx) in card.get(c.name, []))]
            grp = [(k, p, c) for k, (p, c) in enumerate(pairs) if c.classname == "Group"]
            if req:
                muts.append(("remove_required_segment", rnd.choice(req)))
            if one:
                muts.append(("duplicate_nonrepeatable_segment", rnd.choice(one)))
            if grp:
                muts.append(("remove_group", rnd.choice(grp)))
                muts.append(("foreign_segment_in_group", rnd.choice(grp)))
            muts.append(("foreign_segment_in_message", None))
            segs = [(k, p, c) for k, (p, c) in enumerate(pairs) if c.classname == "Segment" and c.name != "MSH"]
            if segs:
                muts.append(("unknown_field", rnd.choice(segs)))
                muts.append(("duplicate_field", rnd.choice(segs)))
                muts.append(("z_segment", rnd.choice(segs)))
                muts.append(("add_then_remove_field", rnd.choice(segs)))
                opened = [(k, p, c) for (k, p, c) in segs if (T.seg_rows(v, c.name) or [{"kind": ""}])[-1]["kind"] == "varies"]
                if opened:
                    muts.append(("additional_fields_on_open_ended_segment", rnd.choice(opened)))
                based = [(k, p, c) for (k, p, c) in segs if any(r["kind"] == "base" and r["max"] != 0 for r in (T.seg_rows(v, c.name) or []))]
                if based:
                    muts.append(("two_components_in_base_field", rnd.choice(based)))
                bounded = [(k, p, c) for (k, p, c) in segs if any(r["max"] >= 2 for r in (T.seg_rows(v, c.name) or []))]
                if bounded:
                    t = rnd.choice(bounded)
                    muts.append(("exceed_bounded_max", t))
                    muts.append(("at_bounded_max", t))
            muts.append(("read_absent_children", None))
            muts.append(("add_then_remove_foreign", None))
            muts.append(("add_then_remove_z", None))
            if req:
                muts.append(("remove_required_segment_then_read_it", rnd.choice(req)))
            for (mut, target) in muts:
                try:
                    m = fresh()
                    pr = find_rows(m)
                    if target is not None:
                        p, c = pr[target[0]]
                    if mut in ("remove_required_segment", "remove_group"):
                        p.children.remove(c)
                    elif mut == "duplicate_nonrepeatable_segment":
                        p.add(Segment(c.name, version=v))
                    elif mut == "foreign_segment_in_group":
                        c.add(Segment(rnd.choice(foreign), version=v))
                    elif mut == "foreign_segment_in_message":
                        m.add(Segment(rnd.choice(foreign), version=v))
                    elif mut == "unknown_field":
                        c.add(Field(version=v))
                    elif mut == "duplicate_field":
                        tab = T.seg_rows(v, c.name)
                        f1 = [r for r in tab if r["max"] == 1]
                        if not f1:
                            continue
                        nm = rnd.choice(f1)["name"]
                        c.add(Field(nm, version=v))
                        c.add(Field(nm, version=v))
                    elif mut == "z_segment":
                        p.add(Segment("ZZ1", version=v))
                    elif mut == "add_then_remove_foreign":
                        x = Segment(rnd.choice(foreign), version=v)
                        m.add(x)
                        m.children.remove(x)
                    elif mut == "add_then_remove_z":
                        x = Segment("ZZ1", version=v)
                        m.add(x)
                        if rnd.random() < 0.5:
                            m.children.remove(x)
                        else:
                            del m.zz1
                    elif mut == "additional_fields_on_open_ended_segment":
                        last_ = T.seg_rows(v, c.name)[-1]["i"]
                        setattr(c, "%s_%d" % (c.name.lower(), last_ + 1), "x")
                        c.add_field("%s_%d" % (c.name, last_ + 4)).value = "y"
                    elif mut == "two_components_in_base_field":
                        r_ = rnd.choice([r for r in T.seg_rows(v, c.name) if r["kind"] == "base" and r["max"] != 0])
                        setattr(c, r_["name"].lower(), "1^2")
                    elif mut == "add_then_remove_field":
                        x = Field(version=v)
                        c.add(x)
                        c.children.remove(x)
                    elif mut in ("exceed_bounded_max", "at_bounded_max"):
                        r_ = rnd.choice([r for r in T.seg_rows(v, c.name) if r["max"] >= 2])
                        have = len(list(getattr(c, r_["name"].lower())))
                        for _ in range(max(0, r_["max"] + (1 if mut == "exceed_bounded_max" else 0) - have)):
                            c.add(Field(r_["name"], version=v))
                    elif mut == "read_absent_children":
                        # pure reads of children that do not exist, at every level, before validating
                        for (pp, cc) in pr:
                            if cc.classname == "Segment":
                                tab = T.seg_rows(v, cc.name) or []
                                for r_ in tab[:6] + tab[-2:]:
                                    try:
                                        x = getattr(cc, r_["name"].lower())
                                        x.value
                                        x.to_er7()
                                    except Exception:
                                        pass
                        for n_ in nodes:
                            try:
                                x = getattr(m, n_[0].lower())
                                len(x)
                                x.to_er7() if len(x) else None
                                if n_[1] == "SEG":
                                    tab = T.seg_rows(v, n_[0]) or []
                                    if tab:
                                        getattr(x, tab[0]["name"].lower()).value
                            except Exception:
                                pass
                    elif mut == "remove_required_segment_then_read_it":
                        p.children.remove(c)
                        try:
                            x = getattr(p, c.name.lower())
                            tab = T.seg_rows(v, c.name) or []
                            if tab:
                                getattr(x, tab[0]["name"].lower()).value
                                getattr(x, tab[-1]["name"].lower()).to_er7()
                        except Exception:
                            pass
                except Exception as ex:
                    out.append({"harness_note": "mutation %s failed on %s %s: %s" % (mut, v, sid, exc_name(ex))})
                    continue
                out.append(observe(m, v, sid, nodes, mode, mut))
    return out


def _bounded_chunk(args):
    """every field with a bounded maximum above one, in a segment validated on its own: at the maximum, one above"""
    import_hl7apy()
    from hl7apy.core import Segment, Field
    v, segnames = args
    out = []
    for sn in segnames:
        tab = T.seg_rows(v, sn) or []
        for r in tab:
            if r["max"] < 2:
                continue
            for extra in (0, 1):
                try:
                    seg = Segment(sn, version=v)
                    for _ in range(r["max"] + extra):
                        seg.add(Field(r["name"], version=v))
                except Exception as ex:
                    out.append({"harness_note": "bounded field %s %s: %s" % (v, r["name"], exc_name(ex))})
                    continue
                out.append(observe(seg, v, sn, [], "segment_alone", "bounded_max_%s" % ("exceeded" if extra else "reached")))
    return out


def dense_text(v, sn):
    """the text of segment sn with a value at every leaf position the version defines and has not withdrawn"""
    L = T.lib(v)
    tab = T.seg_rows(v, sn) or []
    fields = []
    for r in tab:
        if r["max"] == 0:
            fields.append("")
        elif r["kind"] != "complex":
            fields.append("1")
        else:
            comps = []
            for c in (T.dt_rows(v, r["dt"]) or []):
                if c["max"] == 0:
                    comps.append("")
                elif c["kind"] != "complex":
                    comps.append("1")
                else:
                    comps.append("&".join("" if card[1] == 0 else "1" for (_n, _ref, card, _cls) in L.DATATYPES_STRUCTS.get(c["dt"], ())))
            fields.append("^".join(comps))
    return "|".join([sn] + fields)


def _alone_chunk(args):
    """segments validated on their own: a value at every leaf the version defines (conforming: no error); content in a
    segment the version defines without fields (a child the parent does not allow: reported)"""
    import_hl7apy()
    from hl7apy.parser import parse_segment
    v, segnames = args
    out = []
    for sn in segnames:
        tab = T.seg_rows(v, sn)
        if tab is None or sn == "MSH":
            continue
        text, mut = (dense_text(v, sn), "every_leaf_populated") if tab else (sn + "|x|y", "content_in_fieldless_segment")
        try:
            seg = parse_segment(text, version=v)
        except Exception as ex:
            out.append({"harness_note": "segment alone %s %s: %s" % (v, sn, exc_name(ex))})
            continue
        out.append(observe(seg, v, sn, [], "segment_alone", mut))
    return out


def order_batch(order):
    """the same observations in the given order of versions, in ONE process: Z fields of every complex datatype (one
    component given, the first one left out), a conforming and a defective message per version"""
    import_hl7apy()
    from hl7apy.core import Segment, Field
    from hl7apy.parser import parse_message
    out = {}
    for v in order:
        for dt in T.complex_datatypes(v):
            comps = T.dt_rows(v, dt) or []
            if len(comps) < 2:
                continue
            try:
                z = Segment("ZZZ", version=v)
                f = Field("ZZZ_1", datatype=dt, version=v)
                f.value = "^12"
                z.add(f)
                r = z.validate(return_errors=True)
                out["%s zfield %s" % (v, dt)] = sorted(str(x) for x in r.errors)
            except Exception as ex:
                out["%s zfield %s" % (v, dt)] = ["exc:" + exc_name(ex)]
        typ = "ADT^A01" if v < "2.3.1" else "ADT^A01^ADT_A01"
        for tag, body in (("ok", "EVN||20200101\rPID|1||1^^^X||D^J\rPV1|1|I"), ("defect", "PID|1||^2\rPV1|1|I\rPV1|2|O")):
            try:
                m = parse_message("MSH|^~\\&|A|B|C|D|20200101||%s|1|P|%s\r%s" % (typ, v, body))
                r = m.validate(return_errors=True)
                out["%s msg %s" % (v, tag)] = sorted(str(x) for x in r.errors)
            except Exception as ex:
                out["%s msg %s" % (v, tag)] = ["exc:" + exc_name(ex)]
    return out


def signature(e, clause):
    return {"clause": clause, "v": e["v"], "sid": e["sid"], "mutation": e["mutation"], "outcome": e["outcome"]}


def run(ctx):
    quick = ctx.tier == "quick"
    r = tlc.run("ValidateMC", "ValidateMC.cfg", workers=16, timeout=900)
    if r.violated or not r.completed:
        ctx.machinery_failure("ValidateMC: %r\n%s" % (r.violated, r.raw[-1200:]))
    ctx.add_mc(r, "ValidateMC: verdict function on prescribed forests of a nested structure x all inputs <= 6")
    rnd = random.Random(ctx.seed + 4)
    state = {"next": 1, "sampled": 0}

    def flush(evs):
        """judge a batch and forget it (the thorough tier produces several hundred thousand observations)"""
        if not evs:
            return
        for e in evs:
            e["id"] = state["next"]
            state["next"] += 1
        ctx.evaluations += len(evs)
        send = [{k: e[k] for k in e if k not in ("mode", "mutation", "v")} for e in evs]
        failed, _ = judge(ctx, "ValidateTrace", "ValidateTrace.cfg", send, heap="4g")
        byid = {e["id"]: e for e in evs}
        for e in evs:
            ctx.nontrivial((e["v"], e["sid"], e["mode"], e["mutation"]))
        for i, clause in sorted(failed.items()):
            e = byid[i]
            ctx.fail(signature(e, clause), {"clause": clause, "v": e["v"], "sid": e["sid"], "mode": e["mode"], "mutation": e["mutation"],
                                            "tree": e["tree"], "errors": e["errors"], "err_texts": e["err_texts"][:12],
                                            "raised": e["raised"], "file_lines": e["file_lines"][:5]})
        if not state["sampled"]:
            state["sampled"] = 1
            for e in evs[:2]:
                ctx.sample({"v": e["v"], "sid": e["sid"], "mode": e["mode"], "mutation": e["mutation"], "errors": e["errors"][:6]})

    events = []
    for vbatch in ([T.versions()] if quick else [[v_] for v_ in T.versions()]):
        jobs = []
        for v in vbatch:
            sids = T.message_names(v)
            if quick:
                rnd.shuffle(sids)
                sids = sids[:9]
            for k in range(3 if quick else 16):
                jobs.append((v, sids[k::(3 if quick else 16)], ctx.seed, quick))
        for part in pmap(_chunk, jobs):
            for e in part:
                if "harness_note" in e:
                    ctx.notes.append(e["harness_note"])
                else:
                    events.append(e)
        if not quick:
            flush(events)
            events = []
    # every field with a bounded maximum above one (they exist from 2.6 on), in a segment validated on its own
    bj = []
    for v in T.versions():
        segn = [s_ for s_ in T.seg_names(v) if any(r["max"] >= 2 for r in (T.seg_rows(v, s_) or []))]
        if quick:
            rnd.shuffle(segn)
            segn = segn[:6]
        if segn:
            bj.append((v, segn))
    nb = 0
    for part in pmap(_bounded_chunk, bj):
        for e in part:
            if "harness_note" in e:
                ctx.notes.append(e["harness_note"])
            else:
                events.append(e)
                nb += 1
    ctx.extra["bounded_field_observations"] = nb
    # segments validated on their own: every leaf populated / content in a field-less segment
    aj = []
    for v in T.versions():
        segn = [s_ for s_ in T.seg_names(v) if len(s_) == 3 and s_ != "MSH" and T.seg_rows(v, s_) is not None]
        fieldless = [s_ for s_ in segn if not T.seg_rows(v, s_)]
        if quick:
            rnd.shuffle(segn)
            segn = sorted(set(segn[:25] + fieldless))
        for k in range(2):
            aj.append((v, segn[k::2]))
    na = 0
    for part in pmap(_alone_chunk, aj):
        for e in part:
            if "harness_note" in e:
                ctx.notes.append(e["harness_note"])
            else:
                events.append(e)
                na += 1
    ctx.extra["segments_validated_alone"] = na
    # the verdict does not depend on what was validated before: the same observations in two orders of the versions
    vs = T.versions()
    fwd, rev = pmap(order_batch, [vs, list(reversed(vs))])
    for key in sorted(set(fwd) | set(rev)):
        events.append({"outcome": "order", "v": key.split()[0], "sid": key, "mode": "order", "mutation": "order",
                       "fwd": fwd.get(key, ["absent"]), "rev": rev.get(key, ["absent"]), "tree": [], "errors": [], "err_texts": [],
                       "raised": "-", "file_lines": []})
    ctx.extra["order_independence_observations"] = len(fwd)
    ctx.notes = sorted(set(ctx.notes))[:40]
    flush(events)
    ctx.rule = ("message structures (quick: 9 per version; thorough: all) x up to 4 (12) generated instances x {as parsed, "
                "required segment removed, non-repeatable segment duplicated, group removed, foreign segment in a group / in "
                "the message, unknown field, duplicated field, Z-segment, a foreign / Z segment or an unknown field added and "
                "removed again, a field with a bounded maximum above one at and above its maximum}; every such field of every "
                "version in a segment validated on its own; components of fields of complex datatypes (missing / limit); the "
                "same observations (Z fields of every complex datatype, two messages per version) in two orders of the "
                "versions; non-trivial = TLC prescribes at least one error; "
                "distinct by (version, structure, instance mode, mutation)")
    ctx.assumptions += ["error texts are tokenised by the harness into <<kind, parent, child>>; only errors whose parent is "
                        "the message, a group, a segment or a field of a complex datatype (missing / limit only) are compared",
                        "minimal segment lines (SEG|n) are used, so missing required fields are part of the expected errors"]
