"""C13 — base datatype values: acceptance matches HL7 syntax and text is preserved.

M: LexicalMC — slot-wise generator of date/time strings around every boundary (month 00/12/13, day 28..32 in leap and
   non-leap years, hour 24, minute/second 60, 0..5 fractional digits, offsets around -1200 / +1400, malformed
   offsets, junk characters) and all short strings over a numeric alphabet; laws relating the definitions.
R+T: every generated string goes through datatype_factory (and SubComponent) for DT, TM, DTM, NM, SI under STRICT
   and TOLERANT; LexicalTrace (TLC) evaluates the lexical definition on the input and decides the verdict."""
import os
import random

from .. import tlc
from .. import tables as T
from ..common import cps, pmap, judge, import_hl7apy, exc_name


def gen_strings(ctx, mode, rich, maxstr):
    cfg = os.path.join(tlc.SPEC_DIR, "_gen_LexMC_%s_%d.cfg" % (mode, os.getpid()))
    with open(cfg, "w") as f:
        f.write("CONSTANTS\n Mode = \"%s\"\n MaxStr = %d\n Rich = %s\n EndAfterJunk = %s\nSPECIFICATION Spec\nCHECK_DEADLOCK FALSE\n"
                "INVARIANT DateIsDateTime\nINVARIANT OffsetIsOptional\nINVARIANT TimeExtendsDate\nINVARIANT PlainIsValid\n"
                "INVARIANT NumEqReflexive\nINVARIANT UnspecifiedIsNotValid\n" % (mode, maxstr, "TRUE" if rich else "FALSE", "TRUE" if rich else "FALSE"))
    try:
        r, states = tlc.dump_states("LexicalMC", os.path.basename(cfg), workers=16, timeout=2400)
    finally:
        os.unlink(cfg)
    if r.violated or not r.completed:
        ctx.machinery_failure("LexicalMC %s: %r\n%s" % (mode, r.violated, r.raw[-1200:]))
    ctx.add_mc(r, "LexicalMC mode=%s rich=%s: generator + 6 laws of the lexical definitions" % (mode, rich))
    out = set()
    for s in states:
        t = s["s"]
        if t:
            out.add("".join(chr(c) for c in t))
    return sorted(out)


EXTRA_TIME = ["12+0100+0100", "1200+1200", "20200229", "19000229", "20000229", "20230229", "20240229", "202002291200+0100",
              "2020022912+0100", "0000", "00000101", "20201301", "20200431", "2020043", "202004301", "24", "2360", "235960",
              "120000.0000", "120000.00000", "120000.", "1200.1", "12.1", "+0100", "12+01", "12+01000", "12-1200", "12-1201",
              "12+1400", "12+1401", "12+1359", "12-1159", "12+0060", "12Z", "12 ", " 12", "１２", "12\n", "2020-01-01",
              "20200101T1200", "99991231235959.9999+1400", "10000101000000.0-1200", "202001011200+1400", "202001011200+1430"]
EXTRA_NUM = ["0", "-0", "+0", "007", "1.50", "01.50", "+1.5", "-1.5", ".5", "5.", "-.5", "1e5", "1E5", "NaN", "nan", "Infinity",
             "-Infinity", "inf", " 1", "1 ", "1_0", "１２", "1,5", "--1", "+-1", "1.2.3", "0.0000001", "0.00000001",
             "123456789012345.6", "1234567890123456", "12345678901234567", "12345", "1234", "99999", "-1", "+7", "0x10", "1.",
             "100000000000000000000", "0.10", "10", "1.0", "1.00", "-0.0", "000", "00.00", "1d", "٣", "²", "1\t"]


def classify(dt, text):
    tags = []
    if dt in ("NM", "SI"):
        low = text.lower()
        if any(c in low for c in "e") and any(ch.isdigit() for ch in low):
            tags.append("exponent")
        if "nan" in low or "inf" in low:
            tags.append("nan_inf")
        if "_" in text:
            tags.append("underscore")
        if text != text.strip():
            tags.append("surrounding_blank")
        if any(ord(c) > 127 for c in text):
            tags.append("non_ascii_digit")
        if text[:1] == "+":
            tags.append("plus_sign")
        if text[:1] == "-":
            tags.append("minus_sign")
        body = text.lstrip("+-")
        ip = body.split(".")[0]
        if len(ip) > 1 and ip[0] == "0":
            tags.append("leading_zero")
        if body.startswith(".") or body.endswith("."):
            tags.append("bare_point")
        if "." in body and body.rstrip("0") != body and body.replace(".", "").isdigit():
            tags.append("trailing_zero")
        frac = body.split(".")[1] if body.count(".") == 1 else ""
        if frac.isdigit() and len(frac) >= 7 and body.replace(".", "").isdigit():
            tags.append("many_decimals")
        if body.replace(".", "", 1).isdigit() and len(text) > (16 if dt == "NM" else 4):
            tags.append("overlong")
    else:
        import re
        m = re.search(r"([+-])(\d{2})(\d{2})$", text)
        if m:
            hh, mm = int(m.group(2)), int(m.group(3))
            lim = 14 if m.group(1) == "+" else 12
            if hh == lim and 0 < mm <= 59:
                tags.append("offset_minutes_beyond_bound")
            elif hh > lim:
                tags.append("offset_hours_beyond_bound")
            else:
                tags.append("offset_ok")
        if len(re.findall(r"[+-]\d{4}", text)) > 1:
            tags.append("offset_twice")
        if text[:4].isdigit() and int(text[:4]) < 1000 and dt != "TM":
            tags.append("year_below_1000")
        if text != text.strip():
            tags.append("surrounding_blank")
        if any(ord(c) > 127 for c in text):
            tags.append("non_ascii")
    return "+".join(tags) or "plain"


def _chunk(args):
    import_hl7apy()
    from hl7apy.factories import datatype_factory
    from hl7apy.core import SubComponent
    v, items = args
    out = []
    for (dt, text, lvl, via) in items:
        L = 1 if lvl == "S" else 2
        e = {"dt": dt, "lvl": lvl, "in": cps(text), "out": [], "via": via, "v": v, "cls": "", "plus": "n/a", "minus": "n/a"}
        if dt == "NM" and lvl == "S" and via == "factory" and text[:1] not in ("+", "-"):
            for key, sign in (("plus", "+"), ("minus", "-")):
                try:
                    datatype_factory(dt, sign + text, v, L)
                    e[key] = "value"
                except Exception as ex:
                    e[key] = exc_name(ex)
        try:
            if via == "factory":
                o = datatype_factory(dt, text, v, L)
                e["cls"] = type(o).__name__
                e["out"] = cps(o.to_er7())
            else:
                sc = SubComponent(datatype=dt, value=text, version=v, validation_level=L)
                e["cls"] = type(sc.value).__name__
                e["out"] = cps(sc.to_er7())
            e["outcome"] = "value"
        except Exception as ex:
            e["outcome"] = exc_name(ex)
        out.append(e)
    return out


def signature(e, clause):
    text = "".join(chr(c) for c in e["in"])
    sig = {"clause": clause, "dt": e["dt"], "lvl": e["lvl"], "via": e["via"], "tags": classify(e["dt"], text),
           "outcome": e["outcome"]}
    if e["dt"] in ("NM", "SI") and e["outcome"] == "value":
        # diagnostic: is the output the same number spelled canonically?
        import re
        from decimal import Decimal
        out = "".join(chr(c) for c in e["out"])
        try:
            same = bool(re.match(r"^[+-]?([0-9]+\.?[0-9]*|\.[0-9]+)$", text)) and Decimal(text) == Decimal(out)
        except Exception:
            same = False
        sig["effect"] = "same_number_respelled" if same else "other"
    return sig


def run(ctx):
    quick = ctx.tier == "quick"
    rnd = random.Random(ctx.seed + 13)
    times = gen_strings(ctx, "time", not quick, 0)
    nums = gen_strings(ctx, "num", False, 4 if quick else 5)
    times = sorted(set(times + EXTRA_TIME))
    nums = sorted(set(nums + EXTRA_NUM))
    cap = 40000 if quick else 250000
    if len(times) > cap:
        keep = set(EXTRA_TIME)
        times = sorted(set(rnd.sample(times, cap)) | keep)
    ctx.extra["time_strings"] = len(times)
    ctx.extra["numeric_strings"] = len(nums)
    import_hl7apy()
    # classes are shared between versions: full grid once per distinct class, a sample per other version
    seen = {}
    per_version = {}
    for v in T.versions():
        per_version[v] = []
        bd = T.lib(v).BASE_DATATYPES
        for dt in ("DT", "TM", "DTM", "NM", "SI"):
            if dt not in bd:
                continue
            key = (dt, bd[dt].__module__, bd[dt].__name__)
            first = key not in seen
            seen.setdefault(key, v)
            per_version[v].append((dt, first))
    ctx.extra["distinct_datatype_classes"] = len(seen)
    jobs = []
    for v, dts in per_version.items():
        items = []
        for dt, first in dts:
            pool = nums if dt in ("NM", "SI") else times
            if dt == "DT":
                pool = [t for t in pool if len(t) <= 10]
            sel = pool if first else rnd.sample(pool, min(len(pool), 150 if quick else 2000))
            for t in sel:
                for lvl in ("S", "T"):
                    items.append((dt, t, lvl, "factory"))
                    if rnd.random() < (0.05 if first else 0.2):
                        items.append((dt, t, lvl, "subcomponent"))
        rnd.shuffle(items)
        for k in range(4):
            jobs.append((v, items[k::4]))
    events = []
    for part in pmap(_chunk, jobs):
        events.extend(part)
    for i, e in enumerate(events):
        e["id"] = i + 1
    ctx.evaluations += len(events)
    failed, _ = judge(ctx, "LexicalTrace", "LexicalTrace.cfg", events)
    byid = {e["id"]: e for e in events}
    for e in events:
        ctx.nontrivial((e["dt"], e["lvl"], e["via"], tuple(e["in"])))
    for i, clause in sorted(failed.items()):
        e = byid[i]
        ctx.fail(signature(e, clause), {"event": e, "clause": clause, "in": "".join(chr(c) for c in e["in"]),
                                        "out": "".join(chr(c) for c in e["out"])})
    for e in events[:4]:
        ctx.sample({"dt": e["dt"], "lvl": e["lvl"], "in": "".join(chr(c) for c in e["in"]), "outcome": e["outcome"],
                    "out": "".join(chr(c) for c in e["out"])})
    ctx.rule = ("strings from the TLC generators (date/time slots with boundary values and junk; all numeric-alphabet strings "
                "up to length %d) plus a list of literals, x {DT, TM, DTM, NM, SI} x {STRICT, TOLERANT} through "
                "datatype_factory (all) and SubComponent (sample); the full grid once per distinct datatype class, a sample "
                "per further version; distinct by (datatype, level, route, input)" % (4 if quick else 5))
    ctx.assumptions += ["HL7 offsets range from -1200 to +1400; forms the standard leaves open (.5, 5., +5 for SI, years "
                        "below 1000) get no verdict on acceptance"]
