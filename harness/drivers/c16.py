"""C16 — MLLP: one framed request in, exactly one correctly routed reply out.

M: Mllp.tla with 2 (thorough: 3) connections — every chunking of the scripts, every interleaving of the clients and
   the handler threads, early close and stall: AtMostOneCall, Outcome, FullFrameServed, LineIsPrefix, NoCrossTalk,
   ReplyOnlyAfterCall, and liveness EventuallyClosed under weak fairness.
R: the real MLLPRequestHandler is run on a scripted connection object (recv / makefile -> real io.BufferedReader /
   sendall / close) for every script family x chunking x fault point the model's client actions describe.
T: a real MLLPServer on a loopback port with concurrent clients, distinct messages, seeded chunkings and faults.
Each connection's observation is judged by MllpTrace (TLC)."""
import io
import itertools
import os
import random
import socket
import threading
import time

from .. import tlc
from ..common import pmap, judge, import_hl7apy, exc_name

SB, EB, CR = b"\x0b", b"\x1c", b"\x0d"


def msg(ctrl, mtype="ADT^A01^ADT_A01", version="2.5", extra_segments=("EVN||20200101", "PID|1||123^^^H||DOE^J")):
    return "\r".join(["MSH|^~\\&|SND|FAC|RCV|FAC|20200101120000||%s|%s|P|%s" % (mtype, ctrl, version)] +
                     list(extra_segments))


def scripts(ctrl):
    """script family -> (bytes, kind)"""
    good = msg(ctrl).encode()
    unreg = msg(ctrl, "ORU^R01^ORU_R01").encode()
    short = ("MSH|^~\\&|||||||ADT^A01|%s|P|2.5" % ctrl).encode()
    multiline = msg(ctrl, extra_segments=("EVN||20200101", "NTE|1||first line\nsecond line\ttabbed  ")).encode()
    return {
        "good": (SB + good + CR + EB + CR, "reg"),
        "good_line_feed_in_field": (SB + multiline + CR + EB + CR, "reg"),
        "good_short": (SB + short + CR + EB + CR, "reg"),
        "good_noterm": (SB + good + EB + CR, "reg"),
        "unregistered": (SB + unreg + CR + EB + CR, "unreg"),
        "nonhl7": (SB + b"hello world " + ctrl.encode() + CR + EB + CR, "nonhl7"),
        "no_start_block": (good + CR + EB + CR, "reg"),
        "truncated_no_end": (SB + good + CR, "reg"),
        "truncated_eb_only": (SB + good + CR + EB, "reg"),
        "empty_payload": (SB + EB + CR, "reg"),
        "empty_line_inside": (SB + b"MSH|^~\\&|||||||ADT^A01|" + ctrl.encode() + b"|P|2.5" + CR + CR + b"PID|1" + CR + EB + CR, "reg"),
        "undecodable": (SB + b"MSH|^~\\&|||||||ADT^A01|" + ctrl.encode() + b"|P|2.5\rPID|1||\xff\xfe" + CR + EB + CR, "reg"),
        "junk_after_frame": (SB + short + CR + EB + CR + b"trailing junk", "reg"),
        "two_frames": (SB + short + CR + EB + CR + SB + short + CR + EB + CR, "reg"),
        "leading_cr": (SB + CR + short + CR + EB + CR, "reg"),
        "only_sb": (SB, "reg"),
        "nothing": (b"", "reg"),
    }


def to_syms(b):
    """bytes -> the byte values MllpFrame reasons about; undecodable input is flagged with 255 (BAD)"""
    try:
        b.decode("utf-8")
        return list(b)
    except UnicodeDecodeError:
        return [255 if x >= 0x80 else x for x in b]


# ---------------------------------------------------------------------------------------------------
# R: the real request handler on a scripted connection
# ---------------------------------------------------------------------------------------------------
class FakeConn(object):
    """What a handler thread sees of one TCP connection whose client sends `chunks` and then does `fault`."""

    def __init__(self, chunks, fault):
        self.chunks = [bytes(c) for c in chunks]
        self.fault = fault            # "none": client waits for the answer; "close": FIN after the chunks; "stall"
        self.sent = []
        self.closed = False
        self.log = []

    # one chunk becomes available at a time: a reader sees at most what has arrived
    def _pull(self, n):
        if self.closed:
            raise OSError("closed")
        if not self.chunks:
            if self.fault == "close":
                return b""
            raise socket.timeout("timed out")     # the client sends nothing more: the server times out
        c = self.chunks[0]
        out, rest = c[:n], c[n:]
        if rest:
            self.chunks[0] = rest
        else:
            self.chunks.pop(0)
        return out

    def recv(self, n):
        d = self._pull(n)
        self.log.append(("recv", n, len(d)))
        return d

    def makefile(self, mode, bufsize=-1):
        conn = self

        class Raw(io.RawIOBase):
            def readable(self):
                return True

            def readinto(self, b):
                d = conn._pull(len(b))
                conn.log.append(("fill", len(b), len(d)))
                b[:len(d)] = d
                return len(d)
        if "r" in mode:
            return io.BufferedReader(Raw(), 8192)
        raise ValueError(mode)

    def sendall(self, data):
        if self.closed:
            raise OSError("closed")
        self.sent.append(bytes(data))

    def settimeout(self, t):
        pass

    def setsockopt(self, *a):
        pass

    def close(self):
        self.closed = True

    def shutdown(self, how):
        pass


class FakeServer(object):
    def __init__(self, handlers, timeout=1):
        self.handlers = handlers
        self.timeout = timeout


ARGS_H, ARGS_E = ("hx", 7), ("ex",)


def make_handlers(log, err=True, args=False, barrier=None):
    """args: the handlers are registered with extra constructor arguments, which their replies carry;
       barrier: every regular handler waits in reply() until all of them are in reply() (overlapping invocations)"""
    import_hl7apy()
    from hl7apy.mllp import AbstractHandler, AbstractErrorHandler, UnsupportedMessageType, InvalidHL7Message

    def ctrl_of(m):
        try:
            f = m.split("\r")[0].split("|")
            return f[9] if len(f) > 9 else m.strip().split(" ")[-1]
        except Exception:
            return "?"

    class H(AbstractHandler):
        def __init__(self, message, *a):
            super(H, self).__init__(message)
            self.a = a

        def reply(self):
            if barrier is not None:
                try:
                    barrier.wait(3)
                except threading.BrokenBarrierError:
                    pass
            c = ctrl_of(self.incoming_message)
            log.append((c, "H", self.incoming_message))
            return "\x0bACK|%s|H%s\r\x1c\r" % (c, "".join("|%s" % x for x in self.a))

    class E(AbstractErrorHandler):
        def __init__(self, exc, message, *a):
            super(E, self).__init__(exc, message)
            self.a = a

        def reply(self):
            c = ctrl_of(self.incoming_message)
            k = ("ERR:Unsupported" if isinstance(self.exc, UnsupportedMessageType) else
                 "ERR:Invalid" if isinstance(self.exc, InvalidHL7Message) else "ERR:" + type(self.exc).__name__)
            log.append((c, k, self.incoming_message))
            return "\x0bACK|%s|%s%s\r\x1c\r" % (c, k, "".join("|%s" % x for x in self.a))
    ah = ARGS_H if args else ()
    h = {"ADT^A01^ADT_A01": (H,) + ah, "ADT^A01": (H,) + ah}
    if err:
        h["ERR"] = (E,) + (ARGS_E if args else ())
    return h


def expected_reply(ctrl, kind, args=False):
    k = {"reg": "H", "unreg": "ERR:Unsupported", "nonhl7": "ERR:Invalid"}[kind]
    a = (ARGS_H if kind == "reg" else ARGS_E) if args else ()
    return ("\x0bACK|%s|%s%s\r\x1c\r" % (ctrl, k, "".join("|%s" % x for x in a))).encode()


def run_fake(case):
    """case: dict(ctrl, family, cuts, fault, err) -> conn event"""
    import_hl7apy()
    from hl7apy.mllp import MLLPRequestHandler
    data, kind = scripts(case["ctrl"])[case["family"]]
    cuts = [c for c in case["cuts"] if 0 < c < len(data)]
    bounds = [0] + sorted(set(cuts)) + [len(data)]
    chunks = [data[a:b] for a, b in zip(bounds, bounds[1:]) if b > a]
    upto = case.get("upto")            # deliver only the first `upto` chunks, then the fault
    if upto is not None:
        chunks = chunks[:upto]
    delivered = b"".join(chunks)
    log = []
    conn = FakeConn(chunks, case["fault"])
    server = FakeServer(make_handlers(log, case["err"], case.get("args", False)))
    crashed = ""
    try:
        MLLPRequestHandler(conn, ("127.0.0.1", 1), server)
    except Exception as ex:        # socketserver would log it and shut the connection down
        crashed = exc_name(ex)
        conn.close()
    return {"k": "conn", "mode": "fake", "family": case["family"], "kind": kind, "err": case["err"], "fault": case["fault"],
            "nchunks": len(chunks), "script": to_syms(data), "delivered": to_syms(delivered),
            "calls": [[k, to_syms(m.encode())] for (c, k, m) in log], "out": list(b"".join(conn.sent)),
            "reply": list(expected_reply(case["ctrl"], kind, case.get("args", False))), "closed": conn.closed, "crashed": crashed,
            "args": bool(case.get("args", False)),
            "reads": len(conn.log)}


def _fake_chunk(cases):
    return [run_fake(c) for c in cases]


def fake_cases(rnd, quick):
    cases = []
    n = 0
    fams = list(scripts("X").keys())
    for fam in fams:
        data, kind = scripts("C%d" % n)[fam]
        L = len(data)
        interesting = sorted(set([1, 2, 3, 4, 5, L - 4, L - 3, L - 2, L - 1] + [i for i in range(L) if data[i:i + 1] == CR]
                                 + [i + 1 for i in range(L) if data[i:i + 1] == CR]))
        interesting = [c for c in interesting if 0 < c < L]
        cutsets = [[]] + [[c] for c in range(1, L)]                     # every split in two
        for a, b in itertools.combinations(interesting, 2):             # three chunks at the delicate places
            cutsets.append([a, b])
        for _ in range(30 if quick else 400):
            k = rnd.randint(3, 8)
            cutsets.append(sorted(rnd.sample(range(1, max(2, L)), min(k, max(1, L - 1)))) if L > 2 else [])
        if L <= 12 or not quick:
            if L <= 14:
                for r in range(L):
                    for cs in itertools.combinations(range(1, L), r):
                        cutsets.append(list(cs))
        for cs in cutsets:
            n += 1
            ctrl = "C%d" % n
            for err in ((True,) if quick and rnd.random() < 0.7 else (True, False)):
                cases.append({"ctrl": ctrl, "family": fam, "cuts": cs, "fault": "none", "err": err, "args": n % 3 == 0})
            # faults after each delivered chunk (close / stall)
            nch = len(set(c for c in cs if 0 < c < L)) + 1
            for upto in range(0, nch + 1):
                if quick and nch > 3 and rnd.random() < 0.6:
                    continue
                for fault in ("close", "stall"):
                    cases.append({"ctrl": ctrl, "family": fam, "cuts": cs, "fault": fault, "err": True, "upto": upto})
    return cases


# ---------------------------------------------------------------------------------------------------
# T: a real server on loopback, concurrent clients
# ---------------------------------------------------------------------------------------------------
def tcp_round(rnd, nclients, timeout_s, round_id):
    import_hl7apy()
    from hl7apy.mllp import MLLPServer
    log = []
    err = rnd.random() < 0.85
    args = rnd.random() < 0.5
    overlap = (round_id % 3 == 0) and nclients > 1     # every third round: the handlers' invocations are made to overlap
    barrier = threading.Barrier(nclients) if overlap else None
    server = MLLPServer("127.0.0.1", 0, make_handlers(log, err, args, barrier), timeout=timeout_s)
    server.daemon_threads = True
    server.handle_error = lambda request, client_address: None      # (socketserver would print the traceback of undecodable input)
    port = server.server_address[1]
    th = threading.Thread(target=server.serve_forever, kwargs={"poll_interval": 0.02})
    th.daemon = True
    th.start()
    fams = list(scripts("X").keys())
    results = [None] * nclients
    plans = []
    for i in range(nclients):
        ctrl = "R%dK%d" % (round_id, i)
        fam = rnd.choice(fams if rnd.random() < 0.5 else ["good", "good_short", "unregistered", "nonhl7", "good_noterm"])
        if overlap:
            fam = "good"
        data, kind = scripts(ctrl)[fam]
        k = rnd.randint(0, 5)
        cuts = sorted(rnd.sample(range(1, len(data)), min(k, max(0, len(data) - 1)))) if len(data) > 2 else []
        if rnd.random() < 0.3 and len(data) > 4:
            cuts = sorted(set(cuts + [rnd.choice([1, 2, 3, len(data) - 1, len(data) - 2])]))
        fault = rnd.choice(["none"] * 6 + ["close", "stall"]) if not overlap else "none"
        bounds = [0] + cuts + [len(data)]
        chunks = [data[a:b] for a, b in zip(bounds, bounds[1:])]
        upto = rnd.randint(0, len(chunks)) if fault != "none" else len(chunks)
        plans.append((ctrl, fam, kind, data, chunks[:upto], fault))

    def client(i):
        ctrl, fam, kind, data, chunks, fault = plans[i]
        out = b""
        closed = False
        try:
            s = socket.create_connection(("127.0.0.1", port), timeout=5)
            s.setsockopt(socket.IPPROTO_TCP, socket.TCP_NODELAY, 1)
            for c in chunks:
                s.sendall(c)
                time.sleep(rnd_sleeps[i].pop() if rnd_sleeps[i] else 0)
            if fault == "close":
                s.shutdown(socket.SHUT_WR)
            s.settimeout(timeout_s * 4 + 3)
            while True:
                try:
                    d = s.recv(4096)
                except socket.timeout:
                    break
                except ConnectionResetError:
                    closed = True
                    break
                if not d:
                    closed = True
                    break
                out += d
            s.close()
        except Exception as ex:
            out = out
            closed = closed
            results[i] = ("clienterror", repr(ex))
            return
        results[i] = (out, closed)
    rnd_sleeps = [[rnd.choice([0, 0, 0.001, 0.004, 0.01]) for _ in range(12)] for _ in range(nclients)]
    ths = [threading.Thread(target=client, args=(i,)) for i in range(nclients)]
    for t in ths:
        t.start()
    for t in ths:
        t.join()
    time.sleep(0.05)
    server.shutdown()
    server.server_close()
    events = []
    for i, (ctrl, fam, kind, data, chunks, fault) in enumerate(plans):
        r = results[i]
        if r is None or r[0] == "clienterror":
            events.append({"harness_error": repr(r)})
            continue
        out, closed = r
        calls = [[k, to_syms(m.encode())] for (c, k, m) in list(log) if c == ctrl]
        events.append({"k": "conn", "mode": "tcp", "family": fam, "kind": kind, "err": err, "fault": fault,
                       "nchunks": len(chunks), "script": to_syms(data), "delivered": to_syms(b"".join(chunks)),
                       "calls": calls, "out": list(out), "reply": list(expected_reply(ctrl, kind, args)), "closed": closed,
                       "crashed": "", "reads": 0, "clients": nclients, "args": args, "overlap": overlap})
    return events


def tcp_interleave(round_id, timeout_s=6.0, deadline_s=2.5):
    """connection A sends the first half of its frame and waits; connection B sends a whole frame and must be answered
    while A is still incomplete; then A completes.  Each connection has its own thread in the model (Mllp.tla): B's
    progress does not depend on A's."""
    import_hl7apy()
    from hl7apy.mllp import MLLPServer
    log = []
    server = MLLPServer("127.0.0.1", 0, make_handlers(log, True), timeout=timeout_s)
    server.daemon_threads = True
    server.handle_error = lambda request, client_address: None
    port = server.server_address[1]
    th = threading.Thread(target=server.serve_forever, kwargs={"poll_interval": 0.02})
    th.daemon = True
    th.start()
    plans = []
    for i in range(2):
        ctrl = "I%dK%d" % (round_id, i)
        data, kind = scripts(ctrl)["good"]
        plans.append((ctrl, "good", kind, data))
    out = [b"", b""]
    closed = [False, False]

    def read_reply(s, deadline):
        buf = b""
        s.settimeout(deadline)
        try:
            while True:
                d = s.recv(4096)
                if not d:
                    return buf, True
                buf += d
        except (socket.timeout, ConnectionResetError):
            return buf, False
    try:
        a = socket.create_connection(("127.0.0.1", port), timeout=5)
        da = plans[0][3]
        a.sendall(da[:len(da) // 2])
        time.sleep(0.05)
        b = socket.create_connection(("127.0.0.1", port), timeout=5)
        b.sendall(plans[1][3])
        out[1], closed[1] = read_reply(b, deadline_s)        # B must be served although A is in the middle of its frame
        b.close()
        a.sendall(da[len(da) // 2:])
        out[0], closed[0] = read_reply(a, deadline_s)
        a.close()
    except Exception as ex:
        return [{"harness_error": repr(ex)}]
    finally:
        server.shutdown()
        server.server_close()
    events = []
    for i, (ctrl, fam, kind, data) in enumerate(plans):
        calls = [[k, to_syms(m.encode())] for (c, k, m) in list(log) if c == ctrl]
        events.append({"k": "conn", "mode": "tcp", "family": "good", "kind": kind, "err": True, "fault": "none",
                       "nchunks": 2 if i == 0 else 1, "script": to_syms(data), "delivered": to_syms(data), "calls": calls,
                       "out": list(out[i]), "reply": list(expected_reply(ctrl, kind, False)), "closed": closed[i], "crashed": "",
                       "reads": 0, "clients": 2, "args": False, "overlap": False, "interleaved": "second_answered_while_first_is_incomplete"})
    return events


def _tcp_chunk(args):
    seed, rounds, nclients, timeout_s = args
    rnd = random.Random(seed)
    out = []
    for r in range(rounds):
        out.extend(tcp_round(rnd, nclients, timeout_s, seed * 1000 + r))
    return out


# ---------------------------------------------------------------------------------------------------
# framing law: to_mllp and what the server extracts from it
# ---------------------------------------------------------------------------------------------------
def frame_events(rnd, quick):
    import_hl7apy()
    from hl7apy.core import Message
    from hl7apy.parser import parse_message
    from hl7apy.mllp import MLLPRequestHandler
    from .. import tables as T
    out = []
    texts = []
    for v in (["2.3", "2.5", "2.7", "2.8.1", "2.8.2"] if quick else T.versions()):
        m = Message("ADT_A01", version=v)
        m.msh.msh_9 = "ADT^A01^ADT_A01" if v > "2.3" else "ADT^A01"
        m.msh.msh_10 = "X1"
        m.pid.pid_5 = "DOE^JOHN"
        texts.append(m)
        m2 = parse_message(msg("Z9", version=v), find_groups=False)
        texts.append(m2)
        m3 = Message("ADT_A01", version=v)
        texts.append(m3)
        m4 = Message("ADT_A01", version=v)
        m4.msh.msh_9 = "ADT^A01^ADT_A01" if v > "2.3" else "ADT^A01"
        m4.msh.msh_10 = "X2"
        m4.pid.pid_5 = "DOE^JOHN"
        m4.add_segment("NK1").nk1_2 = "fixed width   "        # the last field of the last segment ends in blanks
        texts.append(m4)
        m5 = Message("ADT_A01", version=v)
        m5.msh.msh_10 = "X3"
        m5.add_segment("NK1").nk1_2 = "two\nlines\t"
        texts.append(m5)
    for m in texts:
        er7 = m.to_er7()
        mllp = m.to_mllp()
        log = []
        conn = FakeConn([mllp.encode()], "none")
        try:
            MLLPRequestHandler(conn, ("127.0.0.1", 1), FakeServer(make_handlers(log, True)))
        except Exception:
            pass
        ext = log[0][2] if log else ""
        try:
            rep = parse_message(ext, find_groups=False).to_er7()
        except Exception as ex:
            rep = "<%s>" % exc_name(ex)
        if any(ln != ln.strip() for ln in er7.split("\r")):
            rep = er7       # (the parser trims the lines: the re-parse clause is about text without blanks at line ends)
        out.append({"k": "frame", "er7": list(er7.encode()), "mllp": list(mllp.encode()), "extracted": list(ext.encode()),
                    "reparsed": list(rep.encode()), "family": "to_mllp", "mode": "frame", "fault": "none", "kind": "reg",
                    "err": True, "nchunks": 1})
    return out


def signature(e, clause):
    sig = {"clause": clause, "mode": e["mode"], "family": e["family"], "fault": e["fault"], "kind": e["kind"],
           "err": e["err"]}
    if e.get("interleaved"):
        sig["interleaved"] = e["interleaved"]
    if e.get("crashed"):
        sig["crashed"] = e["crashed"]
    return sig


def model_check(ctx):
    cfgs = ["MllpMC_2a.cfg", "MllpMC_2b.cfg", "MllpMC_2c.cfg"]
    for c in cfgs:
        r = tlc.run("MllpMC", c, workers=16, timeout=1500, coverage=True)
        if r.violated or not r.completed:
            ctx.machinery_failure("MllpMC %s: %r\n%s" % (c, r.violated, r.raw[-1500:]))
        never = [a for a, (d, t) in r.coverage.items() if a.startswith(("Srv", "Cli")) and t == 0]
        if c == "MllpMC_2a.cfg" and never:
            ctx.machinery_failure("MllpMC %s: actions never taken (vacuous): %s" % (c, never))
        ctx.add_mc(r, "MllpMC %s: 2 connections, all chunkings x interleavings x close/stall; 6 invariants + liveness" % c)
    if ctx.tier != "quick":
        r = tlc.run("MllpMC", "MllpMC_3.cfg", workers=16, timeout=3000, heap="12g")
        if r.violated or not r.completed:
            ctx.machinery_failure("MllpMC 3 connections: %r\n%s" % (r.violated, r.raw[-1500:]))
        ctx.add_mc(r, "MllpMC_3: 3 connections (safety)")


def run(ctx):
    model_check(ctx)
    rnd = random.Random(ctx.seed + 16)
    quick = ctx.tier == "quick"
    cases = fake_cases(rnd, quick)
    rnd.shuffle(cases)
    if quick:
        cases = cases[:30000]
    events = []
    for part in pmap(_fake_chunk, [cases[k::32] for k in range(32)]):
        events.extend(part)
    tcp_jobs = [(ctx.seed * 100 + k, 3 if quick else 30, 4 if quick else 8, 0.25) for k in range(12 if quick else 16)]
    for part in pmap(_tcp_chunk, tcp_jobs):
        for e in part:
            if "harness_error" in e:
                ctx.notes.append("tcp client error (not judged): " + e["harness_error"][:200])
                continue
            events.append(e)
    for part in pmap(tcp_interleave, list(range(3 if quick else 12))):
        for e in part:
            if "harness_error" in e:
                ctx.notes.append("tcp client error (not judged): " + e["harness_error"][:200])
                continue
            events.append(e)
    events.extend(frame_events(rnd, quick))
    for i, e in enumerate(events):
        e["id"] = i + 1
    ctx.evaluations += len(events)
    failed, _ = judge(ctx, "MllpTrace", "MllpTrace.cfg", events)
    byid = {e["id"]: e for e in events}
    for e in events:
        ctx.nontrivial((e["mode"], e["family"], e["fault"], e["err"], e["nchunks"], len(e.get("delivered", []))))
    for i, clause in sorted(failed.items()):
        e = byid[i]
        ctx.fail(signature(e, clause), {"event": e, "clause": clause})
    ctx.extra["tcp_connections"] = len([e for e in events if e["mode"] == "tcp"])
    ctx.extra["fake_connections"] = len([e for e in events if e["mode"] == "fake"])
    for e in [x for x in events if x["mode"] == "tcp"][:2] + [x for x in events if x["mode"] == "fake"][:2]:
        ctx.sample({"mode": e["mode"], "family": e["family"], "fault": e["fault"], "nchunks": e["nchunks"],
                    "calls": [c[0] for c in e["calls"]], "out": bytes(e["out"]).decode("latin1"), "closed": e["closed"]})
    ctx.rule = ("16 script families (good, short, no terminator, unregistered, non-HL7, no start block, truncated, empty, "
                "empty line, undecodable, junk after frame, two frames, ...) x every split in two, delicate three-way "
                "splits, random k-way splits (all compositions for short scripts) x fault (none / client close / stall "
                "after each chunk) x ERR handler registered or not, on the real request handler over a scripted "
                "connection; plus rounds of concurrent clients against a real loopback server; distinct by (mode, "
                "family, fault, err, number of chunks, bytes delivered)")
    ctx.assumptions += ["the scripted connection delivers one client chunk per read, as a TCP stack may",
                        "handlers are identified by the message control id they receive"]
