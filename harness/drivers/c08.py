"""C08 — group finding is sound, order-preserving and deterministic."""
from . import groups


def recurrence_in_nonrepeatable_group(e):
    """diagnostic for the signature: does a max-1 segment recur whose own group is max-1 too, below a repeatable one?"""
    nodes = e["struct"]
    counts = {}
    for n in e["input"]:
        counts[n] = counts.get(n, 0) + 1
    for i, nd in enumerate(nodes):
        if nd[1] == "SEG" and counts.get(nd[0], 0) >= 2 and nd[3] == 1 and nd[4] != 0:
            g = nodes[nd[4] - 1]
            if g[3] == 1:
                p = g[4]
                while p != 0:
                    if nodes[p - 1][3] != 1:
                        return True
                    p = nodes[p - 1][4]
    return False


def signature(e, clause):
    return {"clause": clause, "v": e["v"], "sid": e["sid"], "mode": e["mode"].split(":")[0], "out_fg": e["out_fg"],
            "recurrence_in_nonrepeatable_group": recurrence_in_nonrepeatable_group(e)}


def run(ctx):
    groups.run(ctx, "C08", signature)
    ctx.rule = ("instances generated from message structures (quick: 22 per version, thorough: all ~2000): required-only, "
                "all-children, one optional node toggled, each repeatable group repeated twice / three times with all "
                "children, nested repetition, repeatable segments repeated; non-trivial = every segment name is declared "
                "by the structure (decided by TLC); distinct by (version, structure, mode)")
    ctx.assumptions += ["group names are unique within a message structure", "validation is judged on segment/group "
                        "cardinality errors only (field-level conformance is C04's subject)"]
