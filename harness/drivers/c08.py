"""C08 — group finding is sound, order-preserving and deterministic."""
from . import groups


def signature(e, clause):
    return {"clause": clause, "v": e["v"], "sid": e["sid"], "mode": e["mode"].split(":")[0], "out_fg": e["out_fg"]}


def run(ctx):
    groups.run(ctx, "C08", signature)
    ctx.rule = ("instances generated from message structures (quick: 22 per version, thorough: all ~2000): required-only, "
                "all-children, one optional node toggled, each repeatable group repeated twice / three times with all "
                "children, nested repetition, repeatable segments repeated; non-trivial = every segment name is declared "
                "by the structure (decided by TLC); distinct by (version, structure, mode)")
    ctx.assumptions += ["group names are unique within a message structure", "validation is judged on segment/group "
                        "cardinality errors only (field-level conformance is C04's subject)"]
