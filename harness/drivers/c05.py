"""C05 — STRICT accepts a subset of TOLERANT and enforces what validate() checks.

M: HandlesMC - kept traversal handles x assigning x attaching x writing through handles: cardinality is kept under
   STRICT along every history, and what STRICT accepts TOLERANT accepts with the same result.
M: StrictnessMC — two instances of the reference container (Strict = TRUE / FALSE) stepped over the STRICT graph:
   every outcome STRICT accepts is an outcome TOLERANT accepts; STRICT-reachable states are consistent.
R: TLC's strict graph paths and simulated walks are executed in lock-step on a STRICT and a TOLERANT copy of real
   elements (Segment PID, Group ADT_A01_INSURANCE); texts (segment lines with valid and invalid leaves of every base
   datatype, over-long values, too many repetitions / components, messages) are parsed at both levels; leaf values
   go through SubComponent at both levels.
T: StrictnessTrace (TLC) decides each lock-step observation: accepted by STRICT => accepted by TOLERANT with the same
   encoding and the same validation report, and no validator error other than missing required children."""
import os
import random
import re

from .. import tables as T
from .. import tlc
from ..common import cps, pmap, judge, import_hl7apy, exc_name
from . import tree
from .c04 import tokenise


def report(el):
    try:
        r = el.validate(return_errors=True)
        errs = [str(x) for x in r.errors]
        kinds = []
        for x in r.errors:
            for t in tokenise(x):
                if t[0] == "other":
                    s = str(x)
                    kinds.append("unknown" if s.startswith("Unknown element") else "datatype" if s.startswith("Datatype")
                                 else "invalid_element" if s.startswith("Invalid element") else "other")
                else:
                    kinds.append(t[0])
        return errs + ["W:" + str(w) for w in r.warnings], kinds
    except Exception as ex:
        return ["validate raised " + exc_name(ex)], ["raised"]


def lockstep_tree(args):
    kind, version, seqs = args
    out = []
    for seq in seqs:
        ws = tree.World(tree.Concrete(kind, version, True, poison=True))
        wt = tree.World(tree.Concrete(kind, version, False))
        for k, op in enumerate(seq):
            res = {}
            for name, w in (("s", ws), ("t", wt)):
                o = "ok"
                try:
                    w.do(op)
                except Exception as ex:
                    o = exc_name(ex)
                w.state()
                res[name] = o
            e = {"what": "api:" + op["op"], "conc": kind, "out_s": res["s"], "out_t": res["t"], "enc_s": [], "enc_t": [], "rep_s": [],
                 "rep_t": [], "kinds_s": [], "step": k, "detail": [tree.norm_op(x) for x in seq[:k + 1]][-4:]}
            if res["s"] == "ok":
                e["enc_s"] = [cps(ws.P[p].to_er7()) for p in (1, 2)]
                e["enc_t"] = [cps(wt.P[p].to_er7()) for p in (1, 2)] if res["t"] == "ok" else []
                rs = [report(ws.P[p]) for p in (1, 2)]
                rt = [report(wt.P[p]) for p in (1, 2)] if res["t"] == "ok" else []
                e["rep_s"] = [x[0] for x in rs]
                e["rep_t"] = [x[0] for x in rt]
                e["kinds_s"] = rs[0][1] + rs[1][1]
            out.append(e)
            if res["s"] != "ok":
                break      # the premise (accepted under STRICT) ends here: the two copies have diverged
    return out


POOL = {
    "DT": ["20200101", "2020", "202013", "20200230", "x", "202401 5"], "TM": ["1201", "2400", "120000.1234+0100", "12+1500", "12+1430", "1200-1230", "120000.12345"],
    "DTM": ["202001011200", "20200101120000.12345", "2020-01-01", "202001011200+1401", "20200101120000-1259"], "NM": ["12.5", "1e5", " 1", "x", "12345678901234567"],
    "SI": ["7", "-1", "12345", "x"], "ST": ["text", "a|b", "x" * 250], "ID": ["Y", "x" * 30], "IS": ["M", "y" * 25],
    "FT": ["line\\.br\\two", "a^b"], "TX": ["t"], "TN": ["(555)555-1234", "abc"],
}


def parse_lockstep(args):
    import_hl7apy()
    from hl7apy.parser import parse_message, parse_segment, parse_field, parse_component
    from hl7apy.core import SubComponent
    v, items = args
    out = []
    for (api, text, extra) in items:
        res = {}
        for name, L in (("s", 1), ("t", 2)):
            try:
                if api == "segment":
                    el = parse_segment(text, version=v, validation_level=L)
                elif api == "message":
                    el = parse_message(text, validation_level=L, find_groups=extra)
                elif api == "field":
                    el = parse_field(text, name=extra, version=v, validation_level=L)
                elif api == "component":
                    el = parse_component(text, name=extra, version=v, validation_level=L)
                else:
                    el = SubComponent(datatype=extra, value=text, version=v, validation_level=L)
                rep, kinds = report(el) if api != "leaf" else ([], [])
                res[name] = ("ok", cps(el.to_er7()), rep, kinds)
            except Exception as ex:
                res[name] = (exc_name(ex), [], [], [])
        out.append({"what": "parse:" + api, "conc": v, "leafdt": str(extra) if api == "leaf" else "", "leaflen": len(text) if api == "leaf" else 0,
                    "leafin": cps(text) if api == "leaf" and str(extra) in ("DT", "TM", "DTM", "NM", "SI") and all(ord(c_) < 128 for c_ in text) else [],
                    "out_s": res["s"][0], "out_t": res["t"][0], "enc_s": res["s"][1],
                    "enc_t": res["t"][1], "rep_s": res["s"][2], "rep_t": res["t"][2], "kinds_s": res["s"][3], "step": 0,
                    "detail": [text[:200], str(extra)]})
    return out


def texts_for(v, rnd, quick):
    items = []
    segs = [s for s in T.seg_names(v) if T.seg_rows(v, s) and len(s) == 3 and s != "MSH"]
    rnd.shuffle(segs)
    for seg in segs[:25 if quick else 400]:
        rows = T.seg_rows(v, seg)
        # a line with valid leaves everywhere, then single deviations
        def val(r, bad=False):
            dt = r["dt"]
            if r["kind"] == "base":
                pool = POOL.get(dt, ["v"])
                return pool[-1] if bad else pool[0]
            comps = T.dt_rows(v, dt) or []
            if comps and comps[0]["kind"] == "base":
                pool = POOL.get(comps[0]["dt"], ["v"])
                return pool[-1] if bad else pool[0]
            return "v"
        good = [val(r) for r in rows]
        base = "|".join([seg] + good)
        items.append(("segment", base, None))
        for _ in range(3 if quick else 10):
            k = rnd.randrange(len(rows))
            r = rows[k]
            kind = rnd.choice(["bad_leaf", "repeat", "components", "extra_field", "any_pool"])
            f = list(good)
            if kind == "bad_leaf":
                f[k] = val(r, True)
            elif kind == "repeat":
                f[k] = good[k] + "~" + good[k] + "~" + good[k]
            elif kind == "components":
                f[k] = good[k] + "^a^b^c^d^e^f^g^h^i^j^k^l^m^n^o^p^q^r^s^t^u^v^w^x^y^z" + "&s1&s2&s3"
            elif kind == "extra_field":
                f = f + ["extra1", "extra2"]
            else:
                dt = r["dt"] if r["kind"] == "base" else "ST"
                f[k] = rnd.choice(POOL.get(dt, ["v"]))
            items.append(("segment", "|".join([seg] + f), None))
    for dt, pool in POOL.items():
        if dt in T.lib(v).BASE_DATATYPES:
            for t in pool:
                items.append(("leaf", t, dt))
    # the lengths HL7 gives the textual datatypes: at the maximum, one above, and well above
    for dt, mx in (("ST", 199), ("IS", 20), ("FT", 65536), ("TX", 65536)):
        if dt in T.lib(v).BASE_DATATYPES:
            for n in (mx, mx + 1, mx + 5, mx + 12):
                items.append(("leaf", "x" * n, dt))
    for fname, text in (("PID_3", "1^2^3^A&B&C^MR"), ("PID_3", "1^2^3^A&B&C&D&E^MR^x^y^z^1^2^3^4"), ("PID_5", "D^J"), ("PID_8", "F^x")):
        items.append(("field", text, fname))
    for cname, text in (("CX_4", "A&B&C"), ("CX_4", "A&B&C&D"), ("CX_1", "a&b")):
        items.append(("component", text, cname))
    typ = "ADT^A01" if v < "2.3.1" else "ADT^A01^ADT_A01"
    msgs = ["MSH|^~\\&|A|B|C|D|20200101||%s|1|P|%s\rEVN||20200101\rPID|1||1^^^X||D^J\rPV1|1|I" % (typ, v),
            "MSH|^~\\&|A|B|C|D|20200101||%s|1|P|%s\rEVN||20200101\rPID|1||1^^^X||D^J\rPV1|1|I\rPV1|2|O" % (typ, v),
            "MSH|^~\\&|A|B|C|D|20200101||%s|1|P|%s\rEVN||20200101\rPID|1||1^^^X||D^J\rZZZ|1\rPV1|1|I" % (typ, v),
            "MSH|^~\\&|A|B|C|D|20200101||%s|1|P|%s\rPID|1||1^^^X||D^J" % (typ, v),
            "MSH|^~\\&|A|B|C|D|2020010199||%s|1|P|%s\rEVN||20200101\rPID|1||1^^^X||D^J\rPV1|1|I" % (typ, v)]
    for m in msgs:
        for fg in (True, False):
            items.append(("message", m, fg))
    # structures in which a parent lists one segment name at two places (ROL in ADT_A01, PRT / NTE in the *_ORDER groups):
    # every child present, in structure order - both levels encode it alike
    from . import groups

    def has_dup(kids):
        names_ = [k["name"] for k in kids]
        if len(set(names_)) != len(names_):
            return True
        return any(k["kind"] == "GRP" and has_dup(k["kids"]) for k in kids)
    dups = []
    for sid in T.message_names(v):
        try:
            st = T.structure(v, sid)
        except Exception:
            continue
        if has_dup(st["kids"]) and not any(n[1] == "SEG" and len(n[0]) != 3 for n in groups.flatten_structure(st)):
            dups.append((sid, st))
    for sid, st in rnd.sample(dups, min(len(dups), 3 if quick else 40)):
        names_ = groups.gen_all(st["kids"])
        text = "\r".join([groups.msh(v, sid)] + [groups.seg_text(n, i + 1, v) for i, n in enumerate(names_[1:])])
        items.append(("message", text, True))
    return items


def lines_of(enc):
    if enc and isinstance(enc[0], list):
        return ["".join(chr(c) for c in x).split("\r") for x in enc]
    return ["".join(chr(c) for c in enc).split("\r")]


def signature(e, clause):
    sig = {"clause": clause, "what": e["what"].split(":")[0], "conc": e["conc"] if e["what"].startswith(("api", "handle")) else "text", "family": e["what"].split(":")[-1] if e["what"].startswith("call") else "",
           "out_s": e["out_s"], "out_t": e["out_t"], "kinds": ",".join(sorted(set(k for k in e["kinds_s"] if k != "missing")))}
    if clause == "encoding_differs_between_levels":
        # diagnostic: same segment lines in another order, or content missing on one side?
        ls, lt = lines_of(e["enc_s"]), lines_of(e["enc_t"])
        if len(ls) == len(lt) and all(sorted(a) == sorted(b) for a, b in zip(ls, lt)):
            sig["difference"] = "same_lines_other_order"
        elif not any(x for a in ls for x in a) and any(x for b in lt for x in b):
            sig["difference"] = "strict_encodes_nothing"
        else:
            miss = [x for a, b in zip(ls, lt) for x in b if x not in a]
            sig["difference"] = "z_segment_missing_under_strict" if miss and all(x[:1] == "Z" for x in miss) else "other"
    return sig


def json_dumps(x):
    import json
    return json.dumps(x, sort_keys=True)


def run(ctx):
    quick = ctx.tier == "quick"
    rnd = random.Random(ctx.seed + 5)
    r = tlc.run("StrictnessMC", "StrictnessMC.cfg", workers=16, timeout=900)
    if r.violated or not r.completed:
        ctx.machinery_failure("StrictnessMC: %r\n%s" % (r.violated, r.raw[-1200:]))
    ctx.add_mc(r, "StrictnessMC: ok-outcomes under STRICT are ok-outcomes under TOLERANT on every strict-reachable state x op")
    # behaviours: strict graph paths + every op, and simulated walks of a larger strict instance
    nodes, edges = tree.tlc_graph(ctx, ["A", "B"], 3, ["1"], 2, 1, True)
    init, path, alt = tree.paths_from_graph(nodes, edges, rnd, extra_paths=0)
    ops = tree.alphabet(["A", "B"], 3, [tree.V1, tree.V2], 2)
    seqs = []
    keys = list(path.keys())
    rnd.shuffle(keys)
    for u in keys[:120 if quick else 100000]:
        pre = [tree.label_to_op(l) for l in path[u]]
        sel = ops if not quick else rnd.sample(ops, 25)
        for op in sel:
            if tree.applicable(op, nodes[u]["st"]):
                seqs.append(pre + [op])
    cfg = os.path.join(tlc.SPEC_DIR, "_gen_ETSIM_C05_%d.cfg" % os.getpid())
    with open(cfg, "w") as f:
        f.write(tree.mc_cfg(["A", "B", "C"], 6, [tree.V1, tree.V2], 4, 2, True, props=False).replace("VIEW View\n", ""))
    try:
        rs, behaviours = tlc.simulate("ElementTreeMC", os.path.basename(cfg), num=200 if quick else 4000, depth=30, seed=ctx.seed + 55)
    finally:
        os.unlink(cfg)
    for b in behaviours:
        seq = []
        for act, stt in b:
            op = stt["last"][0]
            if op.get("op") and op["op"] != "Init":
                op = dict(op)
                if "v" in op:
                    op["v"] = "".join(chr(x) for x in op["v"])
                seq.append(op)
        if seq:
            seqs.append(seq)
    ctx.extra["lockstep_sequences"] = len(seqs)
    rnd.shuffle(seqs)
    jobs = []
    for kind in ("seg", "grp"):
        for k in range(8):
            jobs.append((kind, "2.5", seqs[k::8]))
    import json as _json
    seen_total = [0]

    def compact(evs):
        """identical observations once (the lock-step replays repeat themselves a lot; the thorough tier would not fit)"""
        uq = {}
        for e in evs:
            uq.setdefault(_json.dumps([e[k] for k in ("what", "conc", "out_s", "out_t", "enc_s", "enc_t", "rep_s", "rep_t", "kinds_s")]), e)
        seen_total[0] += len(evs) - len(uq)
        return list(uq.values())
    events = []
    for part in pmap(lockstep_tree, jobs):
        events.extend(compact(part))
    events = compact(events)
    pj = []
    for v in (T.versions() if not quick else ["2.3", "2.5", "2.7", "2.8.2"]):
        items = texts_for(v, rnd, quick)
        for k in range(4):
            pj.append((v, items[k::4]))
    for part in pmap(parse_lockstep, pj):
        events.extend(part)
    # single calls: constructors, fields beyond the defined ones, objects built elsewhere, whole child lists
    from . import c05_calls
    cj = []
    for v in (T.versions() if not quick else ["2.2", "2.5", "2.6", "2.8.1"]):
        n = c05_calls.count(v)
        cj.extend((v, lo, min(lo + 90, n)) for lo in range(0, n, 90))
    ncalls = 0
    for part in pmap(c05_calls.lockstep, cj):
        events.extend(part)
        ncalls += len(part)
    ctx.extra["single_call_scenarios"] = ncalls
    # kept traversal handles x attaching x assigning: every history of HandlesMC at both levels
    from . import handles
    hev = []
    for cfgname in (["HandlesMC_q.cfg"] if quick else ["HandlesMC_t.cfg", "HandlesMC_t2.cfg"]):
        # (in a process of its own: the parsed dump of the thorough configurations takes gigabytes, which every worker
        #  forked later would inherit)
        rh, hists = pmap(handles.histories, [(cfgname, 4000 if quick else 150000, ctx.seed)], fresh=True)[0]
        ctx.extra["handle_histories_of_the_model"] = ctx.extra.get("handle_histories_of_the_model", 0) + getattr(rh, "total_histories", len(hists))
        if rh.violated or not rh.completed:
            ctx.machinery_failure("HandlesMC %s: %r\n%s" % (cfgname, rh.violated, rh.raw[-1200:]))
        ctx.add_mc(rh, "HandlesMC (%s): CardinalityKept, SubsetOfTolerant, TypeOK over every history of taking handles, "
                       "assigning, attaching and writing through handles" % cfgname)
        ctx.extra.setdefault("handle_histories", 0)
        ctx.extra["handle_histories"] += len(hists)
        hj = [(kind, hists[k::5]) for kind in ("seg", "msg", "grp") for k in range(5)]
        for a, b in pmap(handles.lockstep, hj):
            hev.extend(a)
            events.extend(b)
    for i, e in enumerate(hev):
        e["id"] = i + 1
    ctx.evaluations += len(hev)
    hfailed, _ = judge(ctx, "HandlesTrace", "HandlesTrace.cfg", [{k: e[k] for k in ("id", "hist", "s", "t")} for e in hev])
    hby = {e["id"]: e for e in hev}
    for i, cl in sorted(hfailed.items()):
        e = hby[i]
        clause, step = (cl[0], cl[1]) if isinstance(cl, tuple) else (cl, 0)
        op = e["hist"][step - 1] if step else {}
        prior = sorted(set("%s:%s" % (o["op"], o["n"]) for o in e["hist"][:max(step - 1, 0)] if o["n"] == op.get("n")))
        ctx.fail({"clause": clause, "what": "handle", "conc": e["conc"], "op": op.get("op", ""), "how": op.get("how", ""),
                  "after": ",".join(prior)},
                 {"clause": clause, "step": step, "conc": e["conc"], "hist": e["hist"], "strict": e["s"], "tolerant": e["t"]})
    for e in hev:
        ctx.nontrivial(("handles", e["conc"], json_dumps(e["hist"])))
    # identical observations once
    import json
    uniq = {}
    for e in events:
        uniq.setdefault(json.dumps([e[k] for k in ("what", "conc", "out_s", "out_t", "enc_s", "enc_t", "rep_s", "rep_t", "kinds_s")]), e)
    ctx.evaluations += len(events) + seen_total[0]
    events = list(uniq.values())
    for i, e in enumerate(events):
        e["id"] = i + 1
    for e in events:
        e.setdefault("leafdt", "")
        e.setdefault("leaflen", 0)
        e.setdefault("leafin", [])
        e.setdefault("dt_given", "")
        e.setdefault("dt_official", "")
        e.setdefault("foreign", False)
    send = [{k: e[k] for k in e if k not in ("detail", "what", "step")} for e in events]
    failed, trivial = judge(ctx, "StrictnessTrace", "StrictnessTrace.cfg", send)
    byid = {e["id"]: e for e in events}
    for e in events:
        if e["id"] not in trivial:
            ctx.nontrivial((e["what"], e["conc"], json.dumps(e["enc_s"])[:200]))
    for i, clause in sorted(failed.items()):
        e = byid[i]
        ctx.fail(signature(e, clause), {"clause": clause, "what": e["what"], "conc": e["conc"], "detail": e["detail"], "out_s": e["out_s"],
                                        "out_t": e["out_t"], "rep_s": e["rep_s"], "rep_t": e["rep_t"], "kinds_s": e["kinds_s"],
                                        "enc_s": e["enc_s"]})
    for e in events[:3]:
        ctx.sample({"what": e["what"], "conc": e["conc"], "out_s": e["out_s"], "out_t": e["out_t"], "detail": e["detail"]})
    ctx.rule = ("strict-graph paths x operations and simulated strict walks executed in lock-step on STRICT and TOLERANT copies "
                "of Segment PID and Group ADT_A01_INSURANCE (a sequence is followed until STRICT refuses a step); segment lines "
                "of (quick: 25 per version x 4 versions; thorough: 400 x 12) segments with valid leaves and single deviations "
                "(invalid / over-long leaf, repetitions, extra components and subcomponents, extra fields), leaf pools of every "
                "base datatype, fields, components and messages parsed at both levels; every history of HandlesMC (quick: 4000 "
                "sampled of length <= 4; thorough: 150000 sampled of those of length <= 4 with six ways of attaching and of those <= 5 with one) on Segment "
                "PID, Message ADT_A01 and Group ADT_A01_INSURANCE at both levels, judged against Handles!Step and by the "
                "STRICT/TOLERANT relation; non-trivial = accepted under STRICT")
    ctx.assumptions += ["validator errors are classified from their text (missing / limit / invalid / unknown / datatype)"]
