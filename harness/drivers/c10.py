"""C10 — the element tree stays internally consistent through any API history."""
from . import tree

FOCUS = tree.VIEW_CLAUSES | {"accepted_but_must_reject"}
QUICK = {"names": ["A", "B"], "objs": 3, "nvals": 1, "kids": 2, "held": 1, "state_fraction": 0.02, "extra_paths": 1, "walks": {"names": ["A", "B", "C"], "objs": 6, "kids": 4, "held": 2, "num": 140, "depth": 40}}
THOROUGH = {"names": ["A", "B"], "objs": 3, "nvals": 1, "kids": 2, "held": 1, "state_fraction": 0.06, "extra_paths": 1, "walks": {"names": ["A", "B", "C"], "objs": 6, "kids": 4, "held": 2, "num": 500, "depth": 50}}


def run(ctx):
    tree.run_property(ctx, FOCUS, QUICK, THOROUGH)
    # outside the container model: the probes of atomic.py (whole-value / children-list assignment, moves of attached
    # children to parents of another level or version, assignments below absent children, ...), after each of which every
    # listed element must report its lister as parent, be listed once, and share version and level with it
    from . import atomic
    atomic.run_probes(ctx, atomic.CONSISTENCY_CLAUSES)
