"""C03 — parsing never silently drops or reorders content."""
from . import groups


def signature(e, clause):
    mode = e["mode"]
    kind = mode.split("+")[-1].split("@")[0].split(":")[0]
    sig = {"clause": clause, "v": e["v"], "sid": e["sid"], "perturbation": kind, "out_fg": e["out_fg"], "out_nofg": e["out_nofg"]}
    # diagnostic: what is special about the first line TLC found different
    k = e.get("bad_line", 0)
    if 1 <= k <= len(e["lines_in"]):
        from .. import tables as T
        line = "".join(chr(c) for c in e["lines_in"][k - 1])
        name = line[:3]
        sig["segment"] = name
        rows = T.seg_rows(e["v"], name) or []
        defined = set(r["i"] for r in rows)
        last = max(defined) if defined else 0
        fields = line.split(chr(e["ec"][0]) if e.get("ec") else "|")[1:]
        holes = [i + 1 for i, f in enumerate(fields) if f and (i + 1) not in defined and (i + 1) < last]
        sig["content_at_withdrawn_position"] = bool(holes)
        leafxcn = [r["name"] for r in rows if r["kind"] == "complex" and r["max"] == 0 and len(fields) >= r["i"] and fields[r["i"] - 1]]
        leafrows = [r["name"] for r in rows if (e["v"], r["name"]) in (("2.7", "PV1_52"), ("2.8.2", "PV1_52"), ("2.1", "ORO_3"))
                    and len(fields) >= r["i"] and fields[r["i"] - 1]]
        sig["content_at_defective_row"] = ",".join(leafrows)
    elif k > len(e["lines_in"]):
        sig["segment"] = "(number of lines differs)"
    return sig


def run(ctx):
    groups.run(ctx, "C03", signature)
    ctx.rule = ("instances of message structures (quick: 12 per version) with rich segment lines (repetitions, components, "
                "subcomponents, fields beyond the defined count) and perturbations: Z-segment / foreign segment inserted "
                "after MSH, in the middle, at the end; a duplicated member; a run of Z-segments; reversed order; parsed "
                "with and without group finding; TLC compares segment names and the sequences of non-empty leaves line by line")
    ctx.assumptions += ["a parse that raises is acceptable: the property forbids silent loss only"]
