"""C19 — concurrent use gives the same results as sequential use.

M: Threads.tla — datatype_factory step by step over the shared per-version maps: with the per-call copy the shared
   maps never change and every call returns what it returns alone (all interleavings of 2 and 3 threads, liveness);
   without the copy TLC finds the interference fixed in 1.3.5 (negative control).
R: TLC's behaviours (every maximal path of the 2-thread graph; simulated 3-thread behaviours) are forced on real
   threads through the HL7APY_VERIF yield points of datatype_factory; after every step the real per-version maps
   are compared with their snapshot.
T: hook-free stress: 8 threads run a corpus of parse / build / encode / validate / factory calls of mixed versions
   and levels under a 1 microsecond switch interval; every result is compared with the same call run alone.
All observations are judged by ThreadsTrace (TLC)."""
import random
import sys
import threading

from .. import tlc
from .. import tables as T
from ..common import pmap, judge, import_hl7apy, exc_name

STEP_OF_ACTION = {"Load": "df.loaded", "GetMap": "df.copied", "Override": "df.overridden", "Lookup": "df.dispatch",
                  "Dispatch": "return"}


# -- forced schedules -------------------------------------------------------------------------------
class Scheduler(object):
    def __init__(self, n):
        self.go = [threading.Event() for _ in range(n)]
        self.arrived = threading.Event()
        self.where = [None] * n
        self.done = [False] * n
        self.tls = threading.local()

    def point(self, name):
        i = getattr(self.tls, "idx", None)
        if i is None:
            return
        self.where[i] = name
        self.arrived.set()
        self.go[i].wait()
        self.go[i].clear()

    def run_thread(self, i, fn, results):
        self.tls.idx = i
        self.point("start")
        try:
            results[i] = fn()
        except Exception as ex:
            results[i] = "exc:" + exc_name(ex)
        self.where[i] = "return"
        self.done[i] = True
        self.tls.idx = None
        self.arrived.set()

    def step(self, i):
        """let thread i run to its next yield point (or to its end)"""
        self.arrived.clear()
        self.go[i].set()
        if not self.arrived.wait(10):
            raise RuntimeError("thread %d did not reach a yield point" % i)
        return self.where[i]


def digest(x):
    if isinstance(x, str):
        return x
    try:
        return "%s:%s" % (type(x).__name__, x.to_er7())
    except Exception as ex:
        return "%s:?%s" % (type(x).__name__, exc_name(ex))


def maps_digest():
    out = []
    for v in T.versions():
        m = T.lib(v).get_base_datatypes()
        out.append([v] + ["%s=%s.%s" % (k, c.__module__, getattr(c, "__name__", repr(c))) for k, c in sorted(m.items())])
    return out


_PRISTINE = []


def pristine_maps():
    """the shared maps as they are before this process made its first library call"""
    if not _PRISTINE:
        _PRISTINE.append(maps_digest())
    return _PRISTINE[0]


def run_schedule(jobs, schedule):
    """jobs: [(datatype, value, version, level)], schedule: list of thread indices (one entry per model action)."""
    import_hl7apy()
    import hl7apy.factories as F
    n = len(jobs)
    sch = Scheduler(n)
    results = [None] * n
    maps0 = pristine_maps()
    alone = []
    for j in jobs:
        try:
            alone.append(digest(F.datatype_factory(*j)))
        except Exception as ex:
            alone.append("exc:" + exc_name(ex))
    F._verif_point = sch.point
    events = []
    try:
        ths = []
        for i, j in enumerate(jobs):
            sch.arrived.clear()
            t = threading.Thread(target=sch.run_thread, args=(i, (lambda jj=j: F.datatype_factory(*jj)), results))
            t.daemon = True
            t.start()
            sch.arrived.wait(10)          # parked at "start"
            ths.append(t)
        for k, i in enumerate(schedule):
            if sch.done[i]:
                continue
            where = sch.step(i)
            events.append({"k": "step", "n": k, "thread": i, "at": where, "maps": maps_digest(), "maps0": maps0,
                           "sched": "".join(str(x) for x in schedule)})
        for i in range(n):                # drain whatever is left (schedules from the model are complete)
            while not sch.done[i]:
                sch.step(i)
        for t in ths:
            t.join(10)
    finally:
        F._verif_point = None
    for i in range(n):
        r = results[i]
        events.append({"k": "job", "thread": i, "job": list(map(str, jobs[i])), "result": digest(r) if r is not None else "none",
                       "alone": alone[i], "sched": "".join(str(x) for x in schedule)})
    return events


def _sched_chunk(items):
    out = []
    for jobs, schedule in items:
        try:
            out.extend(run_schedule(jobs, schedule))
        except Exception as ex:
            out.append({"harness_error": repr(ex)})
    return out


def all_paths(nodes, edges, tmap):
    adj = {}
    for (u, lab, v) in edges:
        adj.setdefault(u, []).append((lab, v))
    init = [k for k, s in nodes.items() if all(x == "load" for x in s["pc"].values())][0]
    paths = []

    def dfs(u, acc):
        if u not in adj:
            paths.append(list(acc))
            return
        for lab, v in adj[u]:
            act = lab.split("(")[0]
            t = lab[lab.index("(") + 1:lab.index(")")]
            acc.append(tmap[t])
            dfs(v, acc)
            acc.pop()
    sys.setrecursionlimit(10000)
    dfs(init, [])
    return paths


JOB_POOL = [("DT", "20200102", "2.5", 1), ("NM", "12.5", "2.5", 1), ("TM", "1201", "2.3", 2), ("ST", "abc", "2.7", 1),
            ("SI", "7", "2.8", 2), ("DTM", "202001021201", "2.6", 1), ("DT", "notadate", "2.5", 2), ("NM", "x", "2.4", 1),
            ("DT", "2020", "2.7", 2), ("FT", "a|b", "2.5.1", 1), ("XX", "1", "2.5", 1), ("TM", "2561", "2.5", 1)]


# -- hook-free stress -----------------------------------------------------------------------------------
def corpus():
    import_hl7apy()
    from hl7apy.parser import parse_message, parse_segment
    from hl7apy.core import Message, Segment
    from hl7apy.factories import datatype_factory
    calls = []
    for v in T.versions():
        typ = "ADT^A01" if v < "2.3.1" else "ADT^A01^ADT_A01"
        text = ("MSH|^~\\&|A|B|C|D|20200101||%s|ID%s|P|%s\rEVN||20200101\rPID|1||12^^^X||DOE^JOHN^%s\rPV1|1|I" % (typ, v, v, v))
        for fg in (True, False):
            for lvl in (1, 2):
                calls.append(("parse %s fg=%s l=%d" % (v, fg, lvl),
                              lambda text=text, fg=fg, lvl=lvl: parse_message(text, validation_level=lvl, find_groups=fg).to_er7()))
        calls.append(("validate %s" % v, lambda text=text: str(parse_message(text).validate(return_errors=True).is_valid)))

        def build(v=v):
            m = Message("ADT_A01", version=v)
            m.msh.msh_7 = "20200101"
            m.pid.pid_5 = "DOE^JANE"
            m.pid.pid_3.cx_1 = "77"
            return m.to_er7()
        calls.append(("build %s" % v, build))
        calls.append(("segment %s" % v, lambda v=v: parse_segment("PID|1||5^^^Z~6||A^B|||F", version=v).to_er7()))
        # calls that must be refused for their arguments, whatever other threads are doing
        bad_ec = {"FIELD": "|", "COMPONENT": "^", "SUBCOMPONENT": "^", "REPETITION": "~", "ESCAPE": "\\", "SEGMENT": "\r", "GROUP": "\r"}
        no_esc = {"FIELD": "|", "COMPONENT": "^", "SUBCOMPONENT": "&", "REPETITION": "~", "SEGMENT": "\r", "GROUP": "\r"}

        def refused(fn):
            def run_():
                try:
                    return "accepted:" + str(fn().to_er7())
                except Exception as ex:
                    return "exc:" + exc_name(ex)
            return run_
        from hl7apy.parser import parse_field, parse_component
        calls.append(("field with duplicated delimiters %s" % v, refused(lambda v=v: parse_field("a^b", name="PID_5", version=v, encoding_chars=dict(bad_ec)))))
        calls.append(("component without escape character %s" % v, refused(lambda v=v: parse_component("a&b", name="CX_4", version=v, encoding_chars=dict(no_esc)))))
        calls.append(("segment with duplicated delimiters %s" % v, refused(lambda v=v: parse_segment("PID|1", version=v, encoding_chars=dict(bad_ec)))))
        xec = {"FIELD": "!", "COMPONENT": "$", "SUBCOMPONENT": "@", "REPETITION": "*", "ESCAPE": "?", "SEGMENT": "\r", "GROUP": "\r"}

        def build_x(v=v):
            m = Message("ADT_A01", version=v, encoding_chars=dict(xec))
            m.msh.msh_7 = "20200101"
            m.pid.pid_5 = "DOE$JANE"
            m.pid.pid_3.cx_1 = "77"
            return m.to_er7() + "#" + parse_message(m.to_er7()).to_er7()
        calls.append(("build with own delimiters %s" % v, build_x))
        for (dt, val, _, lvl) in JOB_POOL[:8]:
            def fac(dt=dt, val=val, v=v, lvl=lvl):
                try:
                    return digest(datatype_factory(dt, val, v, lvl))
                except Exception as ex:
                    return "exc:" + exc_name(ex)
            calls.append(("factory %s %s %s l=%d" % (dt, val, v, lvl), fac))
    return calls


def stress(seed, nthreads, rounds):
    rnd = random.Random(seed)
    calls = corpus()

    def safe(fn):
        try:
            return fn()
        except Exception as ex:
            return "exc:" + exc_name(ex)
    maps0 = pristine_maps()
    # the concurrent rounds run FIRST, in a process that has not made a single library call yet: races on the first
    # use of lazily built shared structures (caches published before they are filled) only exist then.  The
    # sequential reference results are computed afterwards.
    alone = None
    old = sys.getswitchinterval()
    sys.setswitchinterval(1e-6)
    out = []
    try:
        for r in range(rounds):
            order = [rnd.sample(range(len(calls)), len(calls)) for _ in range(nthreads)]
            res = [[None] * len(calls) for _ in range(nthreads)]
            barrier = threading.Barrier(nthreads)

            def work(t):
                barrier.wait()
                for k in order[t][:120]:
                    res[t][k] = safe(calls[k][1])
            ths = [threading.Thread(target=work, args=(t,)) for t in range(nthreads)]
            for t in ths:
                t.start()
            for t in ths:
                t.join()
            for t in range(nthreads):
                for k in order[t][:120]:
                    out.append({"k": "job", "thread": t, "job": [calls[k][0]], "result": str(res[t][k]), "alone": k,
                                "sched": "stress%d.%d" % (seed, r)})
            out.append({"k": "step", "n": r, "thread": -1, "at": "after_round", "maps": maps_digest(), "maps0": maps0,
                        "sched": "stress%d.%d" % (seed, r)})
    finally:
        sys.setswitchinterval(old)
    alone = [safe(fn) for (_, fn) in calls]
    for e in out:
        if e["k"] == "job":
            e["alone"] = str(alone[e["alone"]])
    return out


def _stress_chunk(args):
    return stress(*args)


def _cold(case):
    """one observation in a fresh interpreter (see c19_cold.py)"""
    import json
    import os
    import subprocess
    here = os.path.dirname(os.path.abspath(__file__))
    env = dict(os.environ)
    env["HL7APY_VERIF"] = "1"
    try:
        p = subprocess.run([sys.executable, os.path.join(here, "c19_cold.py"), json.dumps(case)], capture_output=True, text=True,
                           timeout=120, env=env)
        for ln in p.stdout.splitlines():
            if ln.startswith("COLD-EVENTS "):
                return json.loads(ln[len("COLD-EVENTS "):])
        return [{"harness_error": "cold run printed no events: %s" % (p.stderr[-300:],)}]
    except Exception as ex:
        return [{"harness_error": "cold run: %r" % ex}]


def cold_cases(rnd, quick):
    cases = []
    vs = T.versions()
    # first calls of a version forced through the yield points: A runs p steps, B runs completely, A finishes - and mirrored
    dts = [("DT", "20200102"), ("TM", "1201"), ("NM", "12.5"), ("SI", "7"), ("DTM", "202001021201"), ("ST", "abc")]
    for v in (rnd.sample(vs, 3) if quick else vs):
        for _ in range(1 if quick else 4):
            a, b = rnd.sample(dts, 2)
            la, lb = rnd.choice([1, 2]), rnd.choice([1, 2])
            for p_ in range(1, 5):
                cases.append({"mode": "sched", "jobs": [[a[0], a[1], v, la], [b[0], b[1], v, lb]],
                              "schedule": [0] * p_ + [1] * 5 + [0] * (5 - p_)})
                cases.append({"mode": "sched", "jobs": [[a[0], a[1], v, la], [b[0], b[1], v, lb]],
                              "schedule": [1] * p_ + [0] * 5 + [1] * (5 - p_)})
    # first calls of a version at the same time, no hooks: the second thread arrives while the first loads the version
    kinds = [lambda v: ["segment", v], lambda v: ["parse", v], lambda v: ["build", v], lambda v: ["factory", "NM", "12.5", v, 1],
             lambda v: ["factory", "DT", "2020", v, 2]]
    for v in (rnd.sample(vs, 3) if quick else vs):
        for d in ((0, 2, 10, 40, 120) if quick else (0, 1, 2, 5, 10, 20, 40, 80, 120, 200, 300)):
            ka, kb = rnd.choice(kinds), rnd.choice(kinds)
            cases.append({"mode": "race", "a": ka(v), "b": kb(v), "delay_ms": d})
    # defaults changed by the main thread are what other threads see
    for v in (rnd.sample(vs, 2) if quick else vs):
        for lvl in (1, 2):
            cases.append({"mode": "defaults", "version": v, "level": lvl})
    return cases


def signature(e, clause):
    return {"clause": clause, "kind": e["k"], "job": "/".join(e.get("job", [])) or e.get("at"), "mode": "stress" if e["sched"].startswith("stress") else e.get("mode") or "forced"}


def run(ctx):
    quick = ctx.tier == "quick"
    rnd = random.Random(ctx.seed + 19)
    # M
    for cfg, what in (("ThreadsMC_2.cfg", "2 threads"), ("ThreadsMC_copy.cfg", "3 threads")):
        r = tlc.run("ThreadsMC", cfg, workers=8, timeout=900, coverage=True)
        if r.violated or not r.completed:
            ctx.machinery_failure("ThreadsMC %s: %r\n%s" % (cfg, r.violated, r.raw[-1200:]))
        ctx.add_mc(r, "ThreadsMC %s with per-call copy: SharedUntouched, SameAsAlone, AllReturn" % what)
    r = tlc.run("ThreadsMC", "ThreadsMC_nocopy.cfg", workers=4, timeout=900)
    if r.violated not in ("SharedUntouched", "SameAsAlone"):
        ctx.machinery_failure("negative control: without the per-call copy TLC must find interference (got %r)" % r.violated)
    ctx.extra["negative_control"] = "Copy = FALSE refuted: %s" % r.violated
    # R: every maximal path of the 2-thread graph
    r2, nodes, edges = tlc.dump_graph("ThreadsMC", "ThreadsMC_2.cfg", workers=1, timeout=600)
    paths = all_paths(nodes, edges, {"t1": 0, "t2": 1, "t3": 2})
    ctx.extra["two_thread_schedules"] = len(paths)
    items = []
    pairs = [(JOB_POOL[a], JOB_POOL[b]) for a in range(len(JOB_POOL)) for b in range(len(JOB_POOL)) if a != b]
    rnd.shuffle(pairs)
    for (ja, jb) in pairs[:3 if quick else 30]:
        for p in paths:
            items.append(([ja, jb], p))
    # simulated 3-thread behaviours
    rs, behaviours = tlc.simulate("ThreadsMC", "ThreadsMC_copy.cfg", num=60 if quick else 1500, depth=20, seed=ctx.seed + 3)
    n3 = 0
    for b in behaviours:
        sched = []
        prev = None
        for act, st in b:
            if prev is not None:
                for t, name in (("t1", 0), ("t2", 1), ("t3", 2)):
                    if st["pc"][t] != prev["pc"][t]:
                        sched.append(name)
            prev = st
        if len(sched) == 15:
            n3 += 1
            items.append((rnd.sample(JOB_POOL, 3), sched))
    ctx.extra["three_thread_schedules"] = n3
    events = []
    for part in pmap(_sched_chunk, [items[k::16] for k in range(16)]):
        for e in part:
            if "harness_error" in e:
                ctx.machinery_failure("scheduler: " + e["harness_error"])
            else:
                events.append(e)
    # first use: one fresh interpreter per observation
    cc = cold_cases(rnd, quick)
    ncold = 0
    for part in pmap(_cold, cc):
        for e in part:
            if "harness_error" in e:
                ctx.machinery_failure("cold run: " + e["harness_error"])
            else:
                events.append(e)
                ncold += 1
    ctx.extra["cold_process_observations"] = ncold
    # one forced preemption at every source line of a call (no hooks): A stops before its k-th line, B - an ordinary call or
    # a bulk of calls on values never seen before - runs completely, A resumes
    from . import c19_preempt
    pp = c19_preempt.pairs(rnd, rnd.sample(T.versions(), 2) if quick else T.versions(), quick)
    npre = 0
    for part in pmap(c19_preempt.preempt_chunk, [pp[k::16] for k in range(16) if pp[k::16]], fresh=True):
        for e in part:
            if "harness_error" in e:
                ctx.machinery_failure("preemption scheduler: " + e["harness_error"])
            else:
                events.append(e)
                npre += 1
    ctx.extra["line_preemption_observations"] = npre
    ctx.extra["line_preemption_pairs"] = ["%s | %s" % ("/".join(str(x)[:12] for x in a), "/".join(str(x)[:12] for x in b)) for (a, b, _s) in pp]
    # T: stress
    for part in pmap(_stress_chunk, [(ctx.seed * 50 + k, 8, 1 if quick else 6) for k in range(8 if quick else 16)]):
        events.extend(part)
    for i, e in enumerate(events):
        e["id"] = i + 1
    ctx.evaluations += len(events)
    failed, _ = judge(ctx, "ThreadsTrace", "ThreadsTrace.cfg", events)
    byid = {e["id"]: e for e in events}
    for e in events:
        ctx.nontrivial((e["k"], e["sched"][:24], e["thread"], "/".join(e.get("job", []))))
    for i, clause in sorted(failed.items()):
        e = byid[i]
        ctx.fail(signature(e, clause), {"event": {k: v for k, v in e.items() if k not in ("maps0",)}, "clause": clause})
    for e in [x for x in events if x["k"] == "job"][:3]:
        ctx.sample({k: e[k] for k in ("job", "result", "alone", "sched")})
    ctx.rule = ("every maximal path of the 2-thread model graph (all interleavings of the five steps of two "
                "datatype_factory calls) x job pairs, simulated 3-thread behaviours, forced on real threads through the "
                "yield points; first use in fresh interpreters (forced schedules of the first two calls of a version; two "
                "threads first-using a version at the same time with delays 0..300 ms); one forced preemption before every source line a call executes inside hl7apy (sys.settrace, no hooks), the partner being an ordinary call or a bulk of calls on fresh values; plus 8-thread stress rounds over a corpus of parse/build/encode/validate/factory calls of "
                "all versions; distinct by (kind, schedule, thread, job)")
    ctx.assumptions += ["forced switches: at the four yield points of datatype_factory (all interleavings) and, one per schedule, "
                        "before every source line of a call; two or more preemptions inside one call away from the yield points "
                        "are covered by preemptive stress only",
                        "results are compared through class name + ER7 text / exception class"]
