"""C12 — a rejected operation leaves its target unchanged."""
from . import tree

FOCUS = tree.ATOMIC_CLAUSES
QUICK = {"names": ["A", "B"], "objs": 3, "nvals": 1, "kids": 2, "held": 1, "state_fraction": 0.06, "extra_paths": 1, "only": "rejected",
         "walks": {"names": ["A", "B", "C"], "objs": 6, "kids": 4, "held": 2, "num": 140, "depth": 40}}
THOROUGH = {"names": ["A", "B"], "objs": 3, "nvals": 2, "kids": 2, "held": 1, "state_fraction": 1.0, "extra_paths": 2, "only": "rejected",
            "walks": {"names": ["A", "B", "C"], "objs": 6, "kids": 4, "held": 2, "num": 6000, "depth": 60}}


def signature(e, clause):
    return {"clause": clause, "target": e["target"], "op": e["op"], "lvl": e["lvl"], "outcome": e["outcome"]}


def run(ctx):
    tree.run_property(ctx, FOCUS, QUICK, THOROUGH)
    # rejectable operations outside the container model: whole-value / children-list assignment, datatype change,
    # invalid leaves, absent or foreign children, through elements alone and inside their parents
    from . import atomic
    from ..common import pmap, judge
    versions = ["2.5"] if ctx.tier == "quick" else ["2.3", "2.5", "2.6", "2.8"]
    events = []
    for part in pmap(atomic.events_for, versions):
        for e in part:
            if "harness_note" in e:
                ctx.notes.append(e["harness_note"])
            else:
                events.append(e)
    for i, e in enumerate(events):
        e["id"] = i + 1
    failed, trivial = judge(ctx, "AtomicTrace", "AtomicTrace.cfg", events)
    byid = {e["id"]: e for e in events}
    ctx.evaluations += len(events)
    ctx.extra["atomic_probes"] = len(events)
    ctx.extra["atomic_probes_rejected"] = len(events) - len(trivial)
    for e in events:
        if e["id"] not in trivial:
            ctx.nontrivial(("atomic", e["target"], e["op"], e["lvl"], e["v"]))
    for i, clause in sorted(failed.items()):
        e = byid[i]
        ctx.fail(signature(e, clause), {"clause": clause, "event": {k: (("".join(chr(c) for c in e[k])) if k.startswith(("enc_", "root_")) else e[k]) for k in e}})
