"""C12 — a rejected operation leaves its target unchanged."""
from . import tree

FOCUS = tree.ATOMIC_CLAUSES
QUICK = {"names": ["A", "B"], "objs": 3, "nvals": 1, "kids": 2, "held": 1, "state_fraction": 0.06, "extra_paths": 1, "only": "rejected",
         "walks": {"names": ["A", "B", "C"], "objs": 6, "kids": 4, "held": 2, "num": 140, "depth": 40}}
THOROUGH = {"names": ["A", "B"], "objs": 3, "nvals": 2, "kids": 2, "held": 1, "state_fraction": 1.0, "extra_paths": 2, "only": "rejected",
            "walks": {"names": ["A", "B", "C"], "objs": 6, "kids": 4, "held": 2, "num": 6000, "depth": 60}}


def run(ctx):
    tree.run_property(ctx, FOCUS, QUICK, THOROUGH)
