"""C12 — a rejected operation leaves its target unchanged."""
from . import tree

FOCUS = tree.ATOMIC_CLAUSES
QUICK = {"names": ["A", "B"], "objs": 3, "nvals": 1, "kids": 2, "held": 1, "state_fraction": 0.06, "extra_paths": 1, "only": "rejected",
         "walks": {"names": ["A", "B", "C"], "objs": 6, "kids": 4, "held": 2, "num": 140, "depth": 40}}
THOROUGH = {"names": ["A", "B"], "objs": 3, "nvals": 1, "kids": 2, "held": 1, "state_fraction": 0.06, "extra_paths": 1, "only": "rejected",
            "walks": {"names": ["A", "B", "C"], "objs": 6, "kids": 4, "held": 2, "num": 500, "depth": 50}}


def signature(e, clause):
    return {"clause": clause, "target": e["target"], "op": e["op"], "lvl": e["lvl"], "outcome": e["outcome"]}


def run(ctx):
    tree.run_property(ctx, FOCUS, QUICK, THOROUGH)
    # rejectable operations outside the container model: whole-value / children-list assignment, datatype change,
    # invalid leaves, absent or foreign children, through elements alone and inside their parents
    from . import atomic
    atomic.run_probes(ctx, atomic.ATOMIC_CLAUSES)
