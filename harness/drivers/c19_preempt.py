"""C19 - one forced preemption at EVERY line.  Threads.tla lets two calls interleave at the steps of datatype_factory; the
schedules 'A runs p steps, B runs completely, A finishes' are forced there through the four yield points.  Here the same
family of schedules is forced at the granularity of source lines, without hooks: thread A runs under sys.settrace and
stops before the k-th line it executes inside hl7apy, the partner B runs to completion in another thread, A resumes.
Every k is taken.  B is either an ordinary call or a BULK of calls on values never seen before (pressure on whatever the
library remembers between calls: a bounded memo is flushed by it, a growing one grows).  The events go to ThreadsTrace
(result = what the same call returns alone)."""
import os
import sys
import threading

from ..common import import_hl7apy, exc_name

_FRESH = [0]


def _digest(x):
    if isinstance(x, str):
        return x
    try:
        return "%s:%s" % (type(x).__name__, x.to_er7())
    except Exception as ex:
        return "%s:?%s" % (type(x).__name__, exc_name(ex))


def make_call(c):
    """c = ["factory", dt, value, version, level] | ["segment", text, version, level] | ["build", version, level]
         | ["bulk", version]   (about 1200 factory calls on date / time / number texts never used before, 600 of them dates)"""
    kind = c[0]
    if kind == "factory":
        def fn():
            from hl7apy.factories import datatype_factory
            return _digest(datatype_factory(c[1], c[2], c[3], c[4]))
    elif kind == "segment":
        def fn():
            from hl7apy.parser import parse_segment
            return parse_segment(c[1], version=c[2], validation_level=c[3]).to_er7()
    elif kind == "build":
        def fn():
            from hl7apy.core import Message
            m = Message("ADT_A01", version=c[1], validation_level=c[2])
            m.msh.msh_7 = "20200101"
            m.pid.pid_5 = "DOE^JANE"
            m.pid.pid_7 = "19690113"
            return m.to_er7() + "#" + str(m.validate(return_errors=True).is_valid)
    else:
        def fn():
            from hl7apy.factories import datatype_factory
            ok = 0
            for _ in range(600):
                _FRESH[0] += 1
                n = _FRESH[0]
                d = "%04d%02d%02d" % (1000 + (n // 336) % 8000, 1 + (n // 28) % 12, 1 + n % 28)
                for dt, val in ((("DT", d),) if n % 3 else (("DT", d), ("DTM", d + "%02d%02d" % (n % 24, n % 60)), ("TM", "%02d%02d%02d" % (n % 24, n % 60, (n // 60) % 60)), ("NM", "%d.%d" % (n, n % 97)))):
                    try:
                        datatype_factory(dt, val, c[1], 1)
                        ok += 1
                    except Exception:
                        pass
            return "bulk ok=%d" % ok
    def safe():
        try:
            return fn()
        except Exception as ex:
            return "exc:" + exc_name(ex)
    return safe


def _hl7dir():
    import hl7apy
    return os.path.dirname(os.path.abspath(hl7apy.__file__))


def count_lines(fa, root):
    cnt = [0]

    def local(frame, event, arg):
        if event == "line":
            cnt[0] += 1
        return local

    def tracer(frame, event, arg):
        return local if frame.f_code.co_filename.startswith(root) else None
    res = [None]

    def run():
        sys.settrace(tracer)
        try:
            res[0] = fa()
        finally:
            sys.settrace(None)
    t = threading.Thread(target=run)
    t.start()
    t.join(60)
    return cnt[0], res[0]


def run_preempted(fa, fb, k, root):
    """A stops before its k-th line inside hl7apy, B runs completely, A resumes -> (result of A, result of B)"""
    gate, reached = threading.Event(), threading.Event()
    cnt = [0]
    res = [None, None]

    def local(frame, event, arg):
        if event == "line":
            cnt[0] += 1
            if cnt[0] == k:
                reached.set()
                gate.wait(30)
        return local

    def tracer(frame, event, arg):
        return local if frame.f_code.co_filename.startswith(root) else None

    def run_a():
        sys.settrace(tracer)
        try:
            res[0] = fa()
        finally:
            sys.settrace(None)
            reached.set()

    def run_b():
        res[1] = fb()
    ta = threading.Thread(target=run_a)
    ta.start()
    reached.wait(30)
    tb = threading.Thread(target=run_b)
    tb.start()
    tb.join(60)
    gate.set()
    ta.join(60)
    return res[0], res[1]


def preempt_chunk(pairs):
    import_hl7apy()
    root = _hl7dir()
    out = []
    for (ja, jb, stride) in pairs:
        fa, fb = make_call(ja), make_call(jb)
        alone_a = fa()          # (also: whatever the library remembers about A's arguments is there from now on)
        alone_b = fb()
        n, again = count_lines(fa, root)
        if again != alone_a:
            out.append({"harness_error": "the call %r is not repeatable alone: %r / %r" % (ja, alone_a, again)})
            continue
        # every line of a call that executes a few hundred of them; of longer ones (parsing, building) about 150 lines,
        # evenly spread
        step = max(1, n // 150)
        for k in range(1 + (len(out) % step), n + 1, step):
            ra, rb = run_preempted(fa, fb, k, root)
            sched = "line:%d/%d" % (k, n)
            out.append({"k": "job", "mode": "preempt-line", "thread": 0, "job": [str(x) for x in ja], "result": str(ra), "alone": str(alone_a),
                        "sched": sched})
            if jb[0] != "bulk" or rb != alone_b:
                out.append({"k": "job", "mode": "preempt-line", "thread": 1, "job": [str(x) for x in jb], "result": str(rb),
                            "alone": str(alone_b), "sched": sched})
    return out


def pairs(rnd, versions, quick):
    """(A, partner, _) : every kind of A (the four factory kinds, parsing, building) for every given version - quick: one
    level per version, thorough: both - once with the bulk partner and once with another ordinary call"""
    out = []
    for vi, v in enumerate(versions):
        for L in ((1 + vi % 2,) if quick else (1, 2)):
            a_jobs = [["factory", "DT", "19690113", v, L], ["factory", "DTM", "196901131201", v, L] if v >= "2.5" else ["factory", "TM", "1201", v, L],
                      ["factory", "NM", "12.50", v, L], ["factory", "ST", "a|b", v, L],
                      ["segment", "PID|1||5^^^Z~6||A^B|19690113||F", v, L], ["build", v, L]]
            for ja in a_jobs:
                out.append((ja, ["bulk", v], 1))
                out.append((ja, rnd.choice([x for x in a_jobs if x is not ja]), 1))
    return out
