"""C01 — ER7 parse -> encode is the identity on canonical messages.

M: Er7MC — the bounded space of abstract segments: Parse(Enc(d)) = d, trimming yields the canonical form, the
   canonical form is a fixpoint, leaves survive trimming, position law, closure.
R: TLC's abstract documents (repetitions x components x subcomponents x leaf classes) are embedded into every real
   segment definition of every version at field slots whose datatype admits the shape, with leaves drawn from
   per-datatype pools (plain text, inner blanks, escape sequences, dates, numbers), plus fully populated segments.
T: each text goes through parse_segment, parse_message (group finding on and off), parse_field and parse_component;
   Er7Trace (TLC) computes the premise (canonical, within the exported shape, clean leaves) and demands out = text."""
import random

from .. import tables as T
from .. import tlc
from ..common import cps, pmap, judge, import_hl7apy, exc_name
from . import er7mc

EC = [124, 94, 38, 126, 92, 0]
POOL = {
    "ST": ["a", "a b", "x\\F\\y", "\\E\\", "O'Neil-1.5", "é", "\\X0D\\", "l1\\.br\\l2", "APT #12", "#", "a\\L\\b"], "TX": ["t x", "\\T\\", "n#2"],
    "FT": ["f\\.br\\g", "h", "#1"],
    "ID": ["Y", "AB"], "IS": ["M", "X1"], "DT": ["20200229", "2020", "202012", "not a date"], "TM": ["1201", "120000.1234+0100", "2359", "120000.12345"],
    "DTM": ["202001011200", "20200101120000.12-0500", "2020", "20200101120000.123456-0500"], "NM": ["12.5", "0", "-3", "100", "0.0000001"], "SI": ["7", "0", "1234"],
    "GTS": ["g"], "SNM": ["s"], "WD": ["w"], "TN": ["(555)555-1234"], "varies": ["v", "v w"],
}


def leaf_for(dt, cls, rnd):
    pool = POOL.get(dt) or POOL["ST"]
    if cls == 0:
        return ""
    if cls == 2 and dt in ("ST", "TX", "FT", "varies"):
        return rnd.choice([p for p in pool if " " in p or "\\" in p] or pool)
    return rnd.choice(pool)


def shape_of(v, seg):
    rows = T.seg_rows(v, seg) or []
    out = []
    for r in rows:
        if r["kind"] == "complex":
            comps = T.dt_rows(v, r["dt"]) or []
            out.append([r["i"], "complex", len(comps), [max(1, len(c["subs"])) if c["kind"] == "complex" else 1 for c in comps]])
        else:
            out.append([r["i"], r["kind"], 1, [1]])
    return out


def leaf_dt(v, row, c, s):
    """datatype of the leaf at component c, subcomponent s (1-based) of a field row"""
    if row["kind"] == "base":
        return row["dt"]
    if row["kind"] == "varies":
        return "varies"
    comps = T.dt_rows(v, row["dt"]) or []
    if c > len(comps):
        return "ST"
    comp = comps[c - 1]
    if comp["kind"] == "base":
        return comp["dt"]
    if comp["kind"] == "varies":
        return "varies"
    if s <= len(comp["subs"]):
        sd = comp["subs"][s - 1]
        return sd["dt"] if sd["kind"] == "base" else "ST"
    return "ST"


def admits(v, row, afield):
    """can the abstract field (reps of comps of subs) live in this real field?"""
    if row["kind"] == "varies":
        return True
    for rep in afield:
        if row["kind"] == "base":
            if len(rep) > 1 or any(len(c) > 1 for c in rep):
                return False
        else:
            comps = T.dt_rows(v, row["dt"]) or []
            if len(rep) > len(comps):
                return False
            for ci, c in enumerate(rep):
                lim = max(1, len(comps[ci]["subs"])) if comps[ci]["kind"] == "complex" else 1
                if len(c) > lim:
                    return False
    return True


def concretise(v, seg, adoc_fields, rnd):
    rows = [r for r in (T.seg_rows(v, seg) or []) if not (seg == "MSH" and r["i"] <= 2)]
    if not rows:
        return None
    placed = {}
    start = 0
    for af in adoc_fields:
        cand = [k for k in range(start, len(rows)) if admits(v, rows[k], af)]
        if not cand:
            return None
        k = rnd.choice(cand[:6])
        start = k + 1
        row = rows[k]
        reps = []
        for rep in af:
            comps = []
            for ci, c in enumerate(rep):
                subs = []
                for si, leaf in enumerate(c):
                    cls = 0 if not leaf else (2 if len(leaf) > 1 else 1)
                    subs.append(leaf_for(leaf_dt(v, row, ci + 1, si + 1), cls, rnd))
                comps.append("&".join(subs))
            reps.append("^".join(comps))
        placed[row["i"]] = "~".join(reps)
    n = max(placed) if placed else 0
    fields = [placed.get(i, "") for i in range(1, n + 1)]
    if seg == "MSH":
        return "MSH|^~\\&|" + "|".join(fields[2:])
    return "|".join([seg] + fields)


def full_line(v, seg, rnd, dense):
    rows = T.seg_rows(v, seg) or []
    if not rows or seg == "MSH":
        return None
    n = rows[-1]["i"]
    byi = {r["i"]: r for r in rows}
    fields = []
    for i in range(1, n + 1):
        r = byi.get(i)
        if r is None or rnd.random() > dense or (v in ("2.7", "2.8.2") and r["name"] == "PV1_52") or (v == "2.1" and r["name"] == "ORO_3"):
            fields.append("")
            continue
        if r["kind"] == "complex":
            comps = T.dt_rows(v, r["dt"]) or []
            cs = []
            for ci, c in enumerate(comps):
                if rnd.random() < 0.5:
                    cs.append("")
                elif c["kind"] == "complex" and c["subs"]:
                    cs.append("&".join(leaf_for(sd["dt"] if sd["kind"] == "base" else "ST", 1, rnd) if rnd.random() < 0.6 else ""
                                       for sd in c["subs"]).rstrip("&"))
                else:
                    cs.append(leaf_for(c["dt"] if c["kind"] == "base" else "ST", 1, rnd))
            val = "^".join(cs).rstrip("^")
            if r["max"] != 1 and rnd.random() < 0.3 and val:
                val = val + "~" + val
            fields.append(val)
        else:
            fields.append(leaf_for(r["dt"], rnd.choice([1, 1, 2]), rnd))
    return "|".join([seg] + fields).rstrip("|")


def _noise(v):
    """something of the OTHER escaping family is encoded first in this process (a pre-2.7 text before 2.7+ work and the other
    way round): nothing an earlier call did may matter"""
    other = "2.5" if v >= "2.7" else "2.7"
    try:
        T.lib(other).BASE_DATATYPES["ST"]("x\\F\\y\\L\\z|w").to_er7()
        T.lib(other).BASE_DATATYPES["FT"]("p\\.br\\q").to_er7()
    except Exception:
        pass


def _chunk(args):
    import_hl7apy()
    from hl7apy.parser import parse_segment, parse_message, parse_field, parse_component
    v, segs, adocs, seed, quick = args
    _noise(v)
    rnd = random.Random("%s-%s-c01" % (seed, v))
    out = []
    typ = "ADT^A01" if v < "2.3.1" else "ADT^A01^ADT_A01"
    mshline = "MSH|^~\\&|A|B|C|D|20200101||%s|1|P|%s" % (typ, v)
    for seg in segs:
        rows = T.seg_rows(v, seg)
        if not rows:
            continue
        shape = shape_of(v, seg)
        open_ended = rows[-1]["kind"] == "varies"
        fam = 27 if v >= "2.7" else 25
        lines = []
        sel = rnd.sample(adocs, min(len(adocs), 10 if quick else 60))
        for ad in sel:
            t = concretise(v, seg, ad, rnd)
            if t:
                lines.append(t)
        for dense in (0.3, 0.9):
            t = full_line(v, seg, rnd, dense)
            if t:
                lines.append(t)
        for t in lines:
            base = {"k": "rt", "v": v, "seg": seg, "ec": EC, "shape": shape, "open": open_ended, "fam": fam, "text": cps(t)}
            # an element parsed on its own takes the default set of its version, which from 2.7 on has the truncation
            # character #; inside the message (four-character MSH-2) there is none
            base_alone = dict(base)
            base_alone["ec"] = EC[:5] + [35] if v >= "2.7" else EC
            for api in ("segment", "message_fg", "message_nofg"):
                e = dict(base_alone if api == "segment" else base)
                e["api"] = api
                try:
                    if api == "segment":
                        o = parse_segment(t, version=v).to_er7()
                    else:
                        if seg == "MSH":
                            continue
                        m = parse_message(mshline + "\r" + t, find_groups=(api == "message_fg"))
                        ls = m.to_er7().split("\r")
                        o = ls[1] if len(ls) == 2 and ls[0] == mshline else "<%d lines, header %s>" % (len(ls), "same" if ls and ls[0] == mshline else "changed")
                    e["out"] = cps(o)
                    e["outcome"] = "ok"
                except Exception as ex:
                    e["out"] = []
                    e["outcome"] = exc_name(ex)
                out.append(e)
            # field and component level: the text of one field / one component alone
            parts = t.split("|")
            idx = [i for i in range(1, len(parts)) if parts[i]]
            if idx and seg != "MSH":
                i = rnd.choice(idx)
                ftext = parts[i].split("~")[0]
                row = [r for r in rows if r["i"] == i]
                if row:
                    e = dict(base_alone)
                    e["api"] = "field"
                    e["text"] = cps("%s%s%s" % (seg, "|" * i, ftext))
                    try:
                        o = parse_field(ftext, name=row[0]["name"], version=v).to_er7()
                        e["out"] = cps("%s%s%s" % (seg, "|" * i, o))
                        e["outcome"] = "ok"
                    except Exception as ex:
                        e["out"] = []
                        e["outcome"] = exc_name(ex)
                    out.append(e)
                    if row[0]["kind"] == "complex":
                        comps = T.dt_rows(v, row[0]["dt"]) or []
                        cparts = ftext.split("^")
                        cidx = [j for j in range(len(cparts)) if cparts[j] and j < len(comps)]
                        if cidx:
                            j = rnd.choice(cidx)
                            e = dict(base_alone)
                            e["api"] = "component"
                            e["text"] = cps("%s%s%s%s" % (seg, "|" * i, "^" * j, cparts[j]))
                            try:
                                o = parse_component(cparts[j], name=comps[j]["name"], version=v).to_er7()
                                e["out"] = cps("%s%s%s%s" % (seg, "|" * i, "^" * j, o))
                                e["outcome"] = "ok"
                            except Exception as ex:
                                e["out"] = []
                                e["outcome"] = exc_name(ex)
                            out.append(e)
    return out


def signature(e, clause):
    t = "".join(chr(c) for c in e["text"])
    o = "".join(chr(c) for c in e["out"])
    sig = {"clause": clause, "api": e["api"], "v": e["v"], "seg": e["seg"], "outcome": e["outcome"]}
    # diagnostic: the first field that differs
    a, b = t.split("|"), o.split("|")
    k = next((i for i in range(min(len(a), len(b))) if a[i] != b[i]), min(len(a), len(b)))
    sig["field"] = k
    if k < len(a) and k < len(b):
        sig["in"] = a[k][:40]
        sig["out"] = b[k][:40]
        # diagnostic: the whole content of the field is gone (only separators, or nothing, are left)
        sig["content_dropped"] = bool(a[k].strip("~^&")) and not b[k].strip("~^&")
    return sig


def run(ctx):
    quick = ctx.tier == "quick"
    er7mc.model_check(ctx)
    # abstract documents = the reachable states of the bounded generator (plain, non-MSH segments with >= 1 leaf)
    import os
    cfg = os.path.join(tlc.SPEC_DIR, "_gen_Er7MC_docs_%d.cfg" % os.getpid())
    with open(cfg, "w") as f:
        f.write(er7mc.cfg_text(5 if quick else 6, msh=False, fields=2))
    try:
        r, states = tlc.dump_states("Er7MC", os.path.basename(cfg), workers=8, timeout=1500)
    finally:
        os.unlink(cfg)
    adocs = []
    seen = set()
    for s in states:
        d = s["doc"]
        fields = d["fields"]
        if not fields or s["ec"]["F"] != 124:
            continue
        key = repr(fields)
        if key in seen:
            continue
        seen.add(key)
        if any(leaf for f in fields for rep in f for c in rep for leaf in c):
            adocs.append([[[[list(leaf) for leaf in c] for c in rep] for rep in f] for f in fields])
    ctx.extra["abstract_documents"] = len(adocs)
    rnd = random.Random(ctx.seed + 1)
    jobs = []
    for v in T.versions():
        segs = [s for s in T.seg_names(v) if len(s) == 3]
        if quick:
            rnd.shuffle(segs)
            segs = segs[:30] + (["MSH"] if "MSH" not in segs[:30] else [])
        for k in range(3):
            jobs.append((v, segs[k::3], adocs, ctx.seed, quick))
    events = []
    for part in pmap(_chunk, jobs, fresh=True):
        events.extend(part)
    for i, e in enumerate(events):
        e["id"] = i + 1
    ctx.evaluations += len(events)
    send = [{k: e[k] for k in e if k not in ("seg", "v")} for e in events]
    failed, trivial = judge(ctx, "Er7Trace", "Er7Trace.cfg", send)
    byid = {e["id"]: e for e in events}
    for e in events:
        if e["id"] not in trivial:
            ctx.nontrivial((e["api"], e["v"], e["seg"], tuple(e["text"])))
    ctx.extra["outside_the_premise"] = len(trivial)
    for i, clause in sorted(failed.items()):
        e = byid[i]
        ctx.fail(signature(e, clause), {"clause": clause, "api": e["api"], "v": e["v"], "seg": e["seg"],
                                        "text": "".join(chr(c) for c in e["text"]), "out": "".join(chr(c) for c in e["out"]),
                                        "outcome": e["outcome"]})
    for e in events[:3]:
        ctx.sample({"api": e["api"], "v": e["v"], "seg": e["seg"], "text": "".join(chr(c) for c in e["text"])})
    ctx.rule = ("abstract documents from TLC's bounded generator (<= 2 fields x <= 2 repetitions x <= 2 components x <= 2 "
                "subcomponents x 3 leaf classes) embedded into (quick: 30 per version; thorough: all) segment definitions at "
                "slots whose datatype admits the shape, leaves from per-datatype pools, plus sparsely and densely populated full "
                "segments; each through parse_segment, parse_message (group finding on/off), parse_field, parse_component; "
                "non-trivial = TLC found the text canonical, within the exported shape, with well-formed leaves")
    ctx.assumptions += ["numeric leaves are generated in plain decimal form only; date/time leaves within years 1000-9999"]
