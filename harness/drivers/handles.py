"""Histories of Handles.tla (kept traversal handles x attaching x assigning) executed on real elements at both levels.

Used by C05: every history TLC enumerates is run in lock-step on a STRICT and a TOLERANT copy of a Segment, a Message and
a Group; HandlesTrace (TLC) judges outcome and listed counts of every step against Handles!Step, and StrictnessTrace
(TLC) judges the STRICT/TOLERANT relation (same encoding, same report, no validator error but missing children)."""
from .. import tlc
from ..common import cps, import_hl7apy, exc_name

# abstract name -> (child name, something reachable through the child, a valid value for it, text for assignment)
CONCS = {
    # (the text of A does not contain <g>, the text of B does: Handles!GIn)
    "seg": {"A": ("PID_7", "ts_2", "D", "20110101"), "B": ("PID_5", "xpn_2", "JOHN", "DOE^JANE")},
    "msg": {"A": ("PID", "pid_8", "F", "PID|1"), "B": ("NK1", "nk1_1", "1", "NK1|2")},
    "grp": {"A": ("IN2", "in2_2", "123", "IN2|1"), "B": ("IN3", "in3_1", "1", "IN3|2")},
}


def histories(cfg, timeout=1800, limit=None, seed=0):
    """-> (TlcResult, [history]) - the maximal histories of the model (length MaxLen, or ended by a refusal); with `limit`,
    a seeded sample of that many (cfg may be a tuple (cfg, limit, seed): the call then runs in a process of its own)"""
    if isinstance(cfg, tuple):
        cfg, limit, seed = cfg
    r, states = tlc.dump_states("HandlesMC", cfg, workers=8, timeout=timeout)
    hs = [s["hist"] for s in states]
    del states
    r.raw = r.raw[-4000:]
    seen = set()
    for h in hs:
        if len(h) > 1:
            seen.add(repr(h[:-1]))
    out = [h for h in hs if h and repr(h) not in seen]
    r.total_histories = len(out)
    if limit is not None and len(out) > limit:
        import random
        out = random.Random(seed).sample(out, limit)
    return r, out


class World(object):
    def __init__(self, kind, lvl):
        import_hl7apy()
        from hl7apy.core import Segment, Message, Group, Field
        self.kind, self.lvl = kind, lvl
        self.v = "2.5"
        if kind == "seg":
            self.P = Segment("PID", version=self.v, validation_level=lvl)
            self.cls, self.adder = Field, "add_field"
        elif kind == "msg":
            self.P = Message("ADT_A01", version=self.v, validation_level=lvl)
            self.P.msh.msh_7 = "20200101"
            self.P.msh.msh_9 = "ADT^A01^ADT_A01"
            self.P.msh.msh_10 = "1"
            self.P.msh.msh_11 = "P"
            self.cls, self.adder = Segment, "add_segment"
        else:
            self.P = Group("ADT_A01_INSURANCE", version=self.v, validation_level=lvl)
            self.cls, self.adder = Segment, "add_segment"
        self.H = {}
        self.k = 0

    def fill(self, c, n):
        name, g, val, text = CONCS[self.kind][n]
        self.k += 1
        if self.kind == "seg":
            c.value = text
        else:
            setattr(c, g, val)

    def mk(self, n, **kw):
        name = CONCS[self.kind][n][0]
        return self.cls(name, version=self.v, validation_level=self.lvl, **kw)

    def do(self, op):
        n = op["n"]
        name, g, val, text = CONCS[self.kind][n]
        P = self.P
        o = op["op"]
        if o == "Take":
            self.H[n] = getattr(getattr(P, name.lower()), g)
        elif o == "ProxyValue":
            getattr(P, name.lower()).value = text
        elif o == "ProxyChild":
            setattr(getattr(P, name.lower()), g, val)
        elif o == "SetAttr":
            setattr(P, name.lower(), text)
        elif o == "WriteT":
            self.H[n].value = val
        elif o == "Attach":
            how = op["how"]
            if how == "add_name":
                c = getattr(P, self.adder)(name)
                self.fill(c, n)
            elif how == "parent_kw":
                c = self.mk(n, parent=P)
                self.fill(c, n)
            else:
                c = self.mk(n)
                self.fill(c, n)
                if how == "add_obj":
                    P.add(c)
                elif how == "set_parent":
                    c.parent = P
                elif how == "append":
                    P.children.append(c)
                elif how == "insert":
                    P.children.insert(1 if self.kind == "msg" else 0, c)
                else:
                    raise ValueError(how)
        else:
            raise ValueError(o)

    def counts(self):
        out = {}
        for n in ("A", "B"):
            name = CONCS[self.kind][n][0]
            out[n] = sum(1 for c in self.P.children if c.name == name)
        return out


def lockstep(args):
    """-> (events for HandlesTrace, events for StrictnessTrace)"""
    from .c05 import report
    kind, hists = args
    hev, sev = [], []
    for hist in hists:
        W = {"s": World(kind, 1), "t": World(kind, 2)}
        obs = {"s": [], "t": []}
        alive = {"s": True, "t": True}
        for k, op in enumerate(hist):
            res = {}
            for w in ("s", "t"):
                if not alive[w]:
                    continue
                o = "ok"
                try:
                    W[w].do(op)
                except Exception as ex:
                    o = "rej" if type(ex).__name__ == "MaxChildLimitReached" else exc_name(ex)
                    alive[w] = False
                res[w] = o
                obs[w].append({"out": o, "cnt": W[w].counts()})
            if "s" in res and "t" in res:
                e = {"what": "handle:" + op["op"] + (":" + op["how"] if "how" in op else ""), "conc": kind,
                     "out_s": "ok" if res["s"] == "ok" else res["s"], "out_t": "ok" if res["t"] == "ok" else res["t"],
                     "enc_s": [], "enc_t": [], "rep_s": [], "rep_t": [], "kinds_s": [], "step": k, "detail": hist[:k + 1]}
                if res["s"] == "ok":
                    e["enc_s"] = [cps(W["s"].P.to_er7())]
                    rs = report(W["s"].P)
                    e["rep_s"], e["kinds_s"] = [rs[0]], rs[1]
                    if res["t"] == "ok":
                        e["enc_t"] = [cps(W["t"].P.to_er7())]
                        e["rep_t"] = [report(W["t"].P)[0]]
                sev.append(e)
            if not alive["s"]:
                break       # the premise (accepted under STRICT) ends here
        hev.append({"conc": kind, "hist": hist, "s": obs["s"], "t": obs["t"]})
    return hev, sev
