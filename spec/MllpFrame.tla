----------------------------- MODULE MllpFrame -----------------------------
(* MLLP framing over bytes (C16): start block, payload lines terminated by CR, end block, CR.           *)
EXTENDS Naturals, Sequences, FiniteSets, TLC
SBb == 11
EBb == 28
CRb == 13
BADb == 255      \* stands for any byte sequence that does not decode
Pb == 112        \* an ordinary payload byte in the bounded model

EndSeq(l) == Len(l) >= 2 /\ l[Len(l) - 1] = EBb /\ l[Len(l)] = CRb
Payload(l) == SubSeq(l, 2, Len(l) - 2)
NoEmptyLines(p) == /\ p # <<>> /\ p[1] # CRb /\ \A i \in 1..(Len(p) - 1) : ~(p[i] = CRb /\ p[i + 1] = CRb)
Decodes(l) == \A i \in 1..Len(l) : l[i] # BADb
\* regex SB (([^CR]+ CR)* ([^CR]+ CR?)) EB CR matched from the start of the decoded line; the reader stops at
\* the first EB CR, so the payload is everything between SB and that end sequence: non-empty lines of non-CR bytes
Matches(l) == /\ Len(l) >= 4 /\ l[1] = SBb /\ EndSeq(l)
              /\ NoEmptyLines(Payload(l))
WellFormedFrame(s) == Decodes(s) /\ Matches(s) /\ \A i \in 1..(Len(s) - 2) : ~(s[i] = EBb /\ s[i + 1] = CRb)
HandlerOf(kind) == IF kind = "reg" THEN "H" ELSE IF kind = "unreg" THEN "ERR:Unsupported" ELSE "ERR:Invalid"
\* the handler a closed connection must have invoked given the bytes the server consumed ("-": none)
ExpHandler(kind, err, delivered) ==
  IF WellFormedFrame(delivered) /\ (kind = "reg" \/ err) THEN HandlerOf(kind) ELSE "-"
(* the sending side: Message.to_mllp() *)
Frame(er7) == (<<SBb>> \o er7) \o <<CRb, EBb, CRb>>
=============================================================================
