SPECIFICATION Spec
CONSTANTS
 Names = {"A", "B"}
 Max <- MaxQ
 GIn <- GInQ
 Strict = TRUE
 Hows <- HowsQ
 MaxLen = 4
INVARIANT CardinalityKept
INVARIANT TypeOK
PROPERTY SubsetOfTolerant
CHECK_DEADLOCK FALSE
