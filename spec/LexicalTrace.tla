---------------------------- MODULE LexicalTrace ----------------------------
(* Judges what datatype_factory / SubComponent did with a string (C13).                                    *)
(* e = [dt, lvl ("S"|"T"), in, outcome ("value"|"ValueError"|"MaxLengthReached"|other), out, cls]           *)
EXTENDS Lexical, Json, IOUtils
Events == ndJsonDeserialize(IOEnv.EVENTS)
VARIABLES l, nontriv, failed
vars == <<l, nontriv, failed>>

Numeric(dt) == dt \in {"NM", "SI"}
(* HL7 NM: "an optional leading sign (+ or -), the digits and an optional decimal point" - whatever is taken as the     *)
(* number, the sign in front of it is optional: accepting a body and accepting it signed go together.  e.plus / e.minus *)
(* = outcome for the same text with a sign in front ("n/a": the text is signed already, or another route)               *)
Decided(o) == o \in {"value", "ValueError"}
SignLaw(e) == e.dt = "NM" /\ e.lvl = "S" /\ Decided(e.outcome) =>
                 /\ (Decided(e.plus) => (e.plus = "value") = (e.outcome = "value"))
                 /\ (Decided(e.minus) => (e.minus = "value") = (e.outcome = "value"))
Verdict(e) ==
  LET ok == Is(e.dt, e.in)
      long == Len(e.in) > MaxLen(e.dt)
  IN
  IF ~SignLaw(e) THEN "a_sign_in_front_changes_acceptance"
  ELSE IF e.lvl = "S"
  THEN IF Unspecified(e.dt, e.in) THEN "ok"
       ELSE IF ok /\ long THEN (IF e.outcome = "MaxLengthReached" THEN "ok" ELSE "overlong_value_not_rejected_with_MaxLengthReached")
       ELSE IF ok /\ e.outcome # "value" THEN "valid_value_rejected"
       ELSE IF ~ok /\ e.outcome = "value" THEN "invalid_value_accepted"
       ELSE IF ~ok /\ e.outcome \notin {"ValueError", "MaxLengthReached"} THEN "rejected_with_other_exception"
       ELSE IF ok /\ Numeric(e.dt) /\ ~NumEq(e.out, e.in) THEN "number_changed"
       ELSE IF ok /\ Numeric(e.dt) /\ Plain(e.dt, e.in) /\ e.out # e.in THEN "plain_decimal_text_changed"
       ELSE IF ok /\ ~Numeric(e.dt) /\ e.out # e.in THEN "text_changed"
       ELSE "ok"
  ELSE \* TOLERANT: nothing is rejected, the text is kept
       IF e.outcome # "value" THEN "tolerant_rejected"
       ELSE IF Unspecified(e.dt, e.in) /\ ~Numeric(e.dt) THEN "ok"
       ELSE IF e.out # e.in THEN "tolerant_text_not_preserved"
       ELSE "ok"
Premise(e) == TRUE
Init == l = 1 /\ nontriv = 0 /\ failed = 0
Next == /\ l <= Len(Events)
        /\ LET e == Events[l]
               v == Verdict(e)
               pm == Is(e.dt, e.in)
           IN /\ IF pm THEN PrintT(<<"T", e.id>>) ELSE TRUE
              /\ IF v = "ok" THEN TRUE ELSE PrintT(<<"V", e.id, v>>)
              /\ nontriv' = nontriv + 1
              /\ failed' = failed + (IF v = "ok" THEN 0 ELSE 1)
        /\ l' = l + 1
Spec == Init /\ [][Next]_vars
Done == l = Len(Events) + 1 => PrintT(<<"S", Len(Events), nontriv, failed>>)
AllJudged == TLCGet("stats").diameter = Len(Events) + 1
=============================================================================
