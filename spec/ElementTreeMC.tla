--------------------------- MODULE ElementTreeMC ---------------------------
(* Bounded model of the reference container: every reachable state and labelled transition is both      *)
(* checked against the C09/C10/C12 laws and handed to the harness as a behaviour to replay on real       *)
(* hl7apy elements.                                                                                      *)
EXTENDS ElementTree

CONSTANTS Vals, MaxKids, MaxHeld

MaxRepQ == [n \in Names |-> IF n = "A" THEN 1 ELSE 0]

Vals1 == {<<49>>}
Vals2 == {<<49>>, <<50>>}

VARIABLES st, last
vars == <<st, last>>
View == st

Init == st = EmptyState /\ last = <<[op |-> "Init"], "ok">>

Small(s) == /\ \A p \in Parents : Len(s.kids[p]) <= MaxKids
            /\ Cardinality(s.held) <= MaxHeld

Do(o) == \E r \in Succ(st, o) : Small(r.st) /\ st' = r.st /\ last' = <<o, r.out>>

SetName(p, n, v)  == Do([op |-> "SetName", p |-> p, n |-> n, v |-> v])
SetIdx(p, n, i, v) == Do([op |-> "SetIdx", p |-> p, n |-> n, i |-> i, v |-> v])
SetObjL(p, n, c)  == Do([op |-> "SetObj", p |-> p, n |-> n, c |-> c])
SetAtL(p, i, v)   == Do([op |-> "SetAt", p |-> p, i |-> i, v |-> v])
SetDeepL(p, n, v) == Do([op |-> "SetDeep", p |-> p, n |-> n, v |-> v])
SetAtObjL(p, i, c) == Do([op |-> "SetAtObj", p |-> p, i |-> i, c |-> c])
AddNewL(p, n)     == Do([op |-> "AddNew", p |-> p, n |-> n])
AddObj(p, c)      == Do([op |-> "AddObj", p |-> p, c |-> c])
Reparent(p, c)    == Do([op |-> "Reparent", p |-> p, c |-> c])
InsertL(p, i, c)  == Do([op |-> "Insert", p |-> p, i |-> i, c |-> c])
RemoveL(p, c)     == Do([op |-> "Remove", p |-> p, c |-> c])
PopL(p, i)        == Do([op |-> "Pop", p |-> p, i |-> i])
DelAtL(p, i)      == Do([op |-> "DelAt", p |-> p, i |-> i])
DelName(p, n)     == Do([op |-> "DelName", p |-> p, n |-> n])
DelIdx(p, n, i)   == Do([op |-> "DelIdx", p |-> p, n |-> n, i |-> i])
CopyFromL(p, n, q) == Do([op |-> "CopyFrom", p |-> p, n |-> n, q |-> q])
AdoptL(p, q)      == Do([op |-> "Adopt", p |-> p, q |-> q])
NewFreeL(n, v, l) == Do([op |-> "NewFree", n |-> n, v |-> v, l |-> l])
ForgetL(c)        == Do([op |-> "Forget", c |-> c])

Next ==
  \/ \E p \in Parents, n \in Names, v \in Vals : SetName(p, n, v)
  \/ \E p \in Parents, n \in Names, i \in 1..MaxKids, v \in Vals : SetIdx(p, n, i, v)
  \/ \E p \in Parents, n \in Names, c \in Obj : SetObjL(p, n, c)
  \/ \E p \in Parents, i \in 1..MaxKids, v \in Vals : SetAtL(p, i, v)
  \/ \E p \in Parents, i \in 1..MaxKids, c \in Obj : SetAtObjL(p, i, c)
  \/ \E p \in Parents, n \in Names, v \in Vals : SetDeepL(p, n, v)
  \/ \E p \in Parents, n \in Names : AddNewL(p, n)
  \/ \E p \in Parents, c \in Obj : AddObj(p, c) \/ Reparent(p, c) \/ RemoveL(p, c)
  \/ \E p \in Parents, i \in 1..(MaxKids + 1), c \in Obj : InsertL(p, i, c)
  \/ \E p \in Parents, i \in 1..MaxKids : PopL(p, i) \/ DelAtL(p, i)
  \/ \E p \in Parents, n \in Names : DelName(p, n)
  \/ \E p \in Parents, n \in Names, i \in 1..MaxKids : DelIdx(p, n, i)
  \/ \E p, q \in Parents, n \in Names : CopyFromL(p, n, q)
  \/ \E p, q \in Parents : AdoptL(p, q)
  \/ \E n \in Names \cup {Foreign}, v \in Vals, l \in {0, 1} : NewFreeL(n, v, l)
  \/ \E c \in Obj : ForgetL(c)

Spec == Init /\ [][Next]_vars

(* ---- laws of the reference ---- *)
C10Consistent == Consistent(st)
C12Atomic == [][last'[2] = "rej" => st' = st]_vars
\* (assigning an element that is already attached somewhere moves it: the one edit that may reorder)
C09OrderKept == [][last'[1].op # "SetObj" => \A p \in Parents : OrderKept(st, st', p)]_vars
\* an edit through one parent never changes the other parent unless the operation names it (move / copy source is read-only)
C09Locality == [][\A p \in Parents :
                    (st'.kids[p] # st.kids[p]) =>
                       \/ ("p" \in DOMAIN last'[1] /\ last'[1].p = p)
                       \/ last'[1].op \in {"AddObj", "Reparent", "Insert", "SetObj", "Adopt"}]_vars
\* repetitions of a name are exactly the list filtered by name (by-name and positional views agree by construction)
TypeOK == /\ \A p \in Parents : \A i \in 1..Len(st.kids[p]) : st.kids[p][i] \in Obj
          /\ st.held \subseteq Obj
=============================================================================
