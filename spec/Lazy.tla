-------------------------------- MODULE Lazy --------------------------------
(* Reference semantics of lazy child creation (C11): navigating to children that do not exist yet is an  *)
(* observation and changes nothing; assigning a value at the end of a chain materialises exactly the     *)
(* elements on that chain, once each, and nothing else.                                                   *)
(* A tree is a set of rows [p |-> path, v |-> value]; a path is a sequence of child designators.          *)
EXTENDS Naturals, Sequences, FiniteSets, TLC

Prefixes(p) == {SubSeq(p, 1, k) : k \in 1..Len(p)}
Paths(rows) == {r.p : r \in rows}
PrefixClosed(rows) == \A r \in rows : Prefixes(r.p) \subseteq Paths(rows)
OneRowPerPath(rows) == \A r, s \in rows : r.p = s.p => r = s
ValueAt(rows, p) == (CHOOSE r \in rows : r.p = p).v

(* the tree after writing v at the end of chain p *)
WriteAllowed(pre, post, p, v) ==
  /\ OneRowPerPath(post)
  /\ Paths(post) = Paths(pre) \cup Prefixes(p)              \* exactly the chain, nothing else
  /\ ValueAt(post, p) = v
  /\ \A r \in pre : r.p \notin Prefixes(p) => r \in post       \* everything off the chain is untouched
ReadAllowed(pre, post) == post = pre
(* assigning a whole child at the end of chain p (its text v lands in the leaf at chain q, p a prefix of q):  *)
(* the chain down to q exists afterwards, whatever hung below p before is replaced, the rest is untouched    *)
IsPrefix(a, b) == Len(a) <= Len(b) /\ SubSeq(b, 1, Len(a)) = a
AssignAllowed(pre, post, p, q, v) ==
  /\ OneRowPerPath(post)
  /\ Paths(post) = {x \in Paths(pre) : ~(IsPrefix(p, x) /\ x # p)} \cup Prefixes(q)
  /\ ValueAt(post, q) = v
  /\ \A r \in pre : ~IsPrefix(r.p, q) /\ ~IsPrefix(p, r.p) => r \in post
=============================================================================
