--------------------------- MODULE StrictnessTrace ---------------------------
(* Judges lock-step observations of the same call (sequence) under STRICT and TOLERANT (C05).               *)
EXTENDS Naturals, Sequences, FiniteSets, TLC, Json, IOUtils
Events == ndJsonDeserialize(IOEnv.EVENTS)
VARIABLES l, nontriv, failed
vars == <<l, nontriv, failed>>
L == INSTANCE Lexical
(* a leaf of a date / time / numeric datatype (SubComponent(datatype, value)): what STRICT accepts is lexically valid *)
LexicalDts == {"DT", "TM", "DTM", "NM", "SI"}
InvalidAccepted(e) == /\ e.out_s = "ok" /\ e.leafdt \in LexicalDts /\ e.leafin # <<>>
                      /\ ~L!Is(e.leafdt, e.leafin) /\ ~L!Unspecified(e.leafdt, e.leafin)
(* the maximum lengths HL7 gives the textual datatypes (a leaf built through SubComponent(datatype, value)) *)
\* (version 2.6 has an ST class of its own with 999; e.conc is the version of a leaf observation)
HL7Max(dt, v) == CASE dt = "ST" -> (IF v = "2.6" THEN 999 ELSE 199) [] dt = "IS" -> 20 [] dt = "FT" -> 65536 [] dt = "TX" -> 65536 [] OTHER -> 0
Verdict(e) ==
  IF InvalidAccepted(e) THEN "invalid_value_accepted_by_strict"
  ELSE IF e.out_s = "ok" /\ HL7Max(e.leafdt, e.conc) > 0 /\ e.leaflen > HL7Max(e.leafdt, e.conc) THEN "overlong_value_accepted_by_strict"
  ELSE IF e.out_s # "ok" /\ HL7Max(e.leafdt, e.conc) > 0 /\ e.leaflen <= HL7Max(e.leafdt, e.conc) /\ e.out_s = "MaxLengthReached"
       THEN "value_within_the_maximum_length_refused_by_strict"
  ELSE IF e.out_s = "ok" /\ e.dt_given # "" /\ e.dt_official \notin {"", "varies"} /\ e.dt_given # e.dt_official
       THEN "datatype_overridden_under_strict"           \* (constructor given a datatype other than the table's)
  ELSE IF e.out_s = "ok" /\ e.foreign THEN "foreign_child_accepted_by_strict"   \* (a named child of another structure)
  ELSE IF e.out_s # "ok" THEN "ok"                       \* STRICT refused: nothing is claimed
  ELSE IF e.out_t # "ok" THEN "accepted_by_strict_rejected_by_tolerant"
  ELSE IF e.enc_t # e.enc_s THEN "encoding_differs_between_levels"
  ELSE IF e.rep_t # e.rep_s THEN "validation_report_differs_between_levels"
  ELSE IF \E i \in 1..Len(e.kinds_s) : e.kinds_s[i] # "missing" THEN "strict_accepted_element_draws_other_validator_error"
  ELSE "ok"
Init == l = 1 /\ nontriv = 0 /\ failed = 0
Next == /\ l <= Len(Events)
        /\ LET e == Events[l]
               v == Verdict(e)
               pm == e.out_s = "ok"
           IN /\ IF pm THEN TRUE ELSE PrintT(<<"T", e.id>>)
              /\ IF v = "ok" THEN TRUE ELSE PrintT(<<"V", e.id, v>>)
              /\ nontriv' = nontriv + (IF pm THEN 1 ELSE 0)
              /\ failed' = failed + (IF v = "ok" THEN 0 ELSE 1)
        /\ l' = l + 1
Spec == Init /\ [][Next]_vars
Done == l = Len(Events) + 1 => PrintT(<<"S", Len(Events), nontriv, failed>>)
AllJudged == TLCGet("stats").diameter = Len(Events) + 1
=============================================================================
