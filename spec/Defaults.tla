------------------------------ MODULE Defaults ------------------------------
(* C17: process-wide defaults (version, validation level, encoding characters) against calls that state    *)
(* their configuration explicitly.  A history interleaves changes of the three defaults with explicit      *)
(* calls, creations of elements and later observations of elements that already exist.  The result of an   *)
(* explicit call is the one it has under pristine defaults (Baseline), whatever the history; an existing    *)
(* element encodes as it did when it was created.                                                            *)
EXTENDS Naturals, Sequences, FiniteSets, TLC
CONSTANTS VersionChoice, LevelChoice, EcChoice,   \* abstract values the defaults can take (1 = pristine)
          CallId, MaxLen

VARIABLES dv, dl, dec, made, hist
vars == <<dv, dl, dec, made, hist>>

Init == dv = 1 /\ dl = 1 /\ dec = 1 /\ made = {} /\ hist = <<>>
SetVersion(v) == v # dv /\ dv' = v /\ hist' = Append(hist, <<"SetVersion", v>>) /\ UNCHANGED <<dl, dec, made>>
SetLevel(x)   == x # dl /\ dl' = x /\ hist' = Append(hist, <<"SetLevel", x>>) /\ UNCHANGED <<dv, dec, made>>
SetEc(x)      == x # dec /\ dec' = x /\ hist' = Append(hist, <<"SetEc", x>>) /\ UNCHANGED <<dv, dl, made>>
Call(k)       == hist' = Append(hist, <<"Call", k>>) /\ UNCHANGED <<dv, dl, dec, made>>
Create(k)     == k \notin made /\ made' = made \cup {k} /\ hist' = Append(hist, <<"Create", k>>) /\ UNCHANGED <<dv, dl, dec>>
Observe(k)    == k \in made /\ hist' = Append(hist, <<"Observe", k>>) /\ UNCHANGED <<dv, dl, dec, made>>
Next == /\ Len(hist) < MaxLen
        /\ \/ \E v \in VersionChoice : SetVersion(v)
           \/ \E x \in LevelChoice : SetLevel(x)
           \/ \E x \in EcChoice : SetEc(x)
           \/ \E k \in CallId : Call(k) \/ Create(k) \/ Observe(k)
Spec == Init /\ [][Next]_vars

(* the reference: results do not read dv, dl, dec at all *)
Result(k, v, l, e) == k                 \* a function of the call alone
Independent == \A k \in CallId : \A v \in VersionChoice, l \in LevelChoice, e \in EcChoice :
                  Result(k, v, l, e) = Result(k, 1, 1, 1)
\* histories worth replaying: at least one default differs from pristine when something is called or observed
Interesting == hist # <<>> /\ hist[Len(hist)][1] \in {"Call", "Observe"} /\ (dv # 1 \/ dl # 1 \/ dec # 1)
=============================================================================
