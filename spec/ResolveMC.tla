------------------------------ MODULE ResolveMC ------------------------------
(* all 3-row structures over a small vocabulary with clashing long names: laws of Designates *)
EXTENDS Resolve
Voc == {"A", "B", "L", "M", "NAME"}
Attrs == {"NAME"}
VARIABLE rows
Init == rows \in [1..3 -> Voc \X Voc]
Next == UNCHANGED rows
Spec == Init /\ [][Next]_rows
DistinctNames == \A i, j \in 1..3 : i # j => rows[i][1] # rows[j][1]
NameWins == DistinctNames => \A i \in 1..3 : Designates(rows, rows[i][1], Attrs) = rows[i][1]
LongAgrees == DistinctNames => \A i \in 1..3 :
                 LET d == Designates(rows, rows[i][2], Attrs) IN
                 d \in {"?", rows[i][1]} \cup NamesOf(rows)
UniqueLongResolves == DistinctNames => \A i \in 1..3 :
   (Cardinality(RowsWithLong(rows, rows[i][2])) = 1 /\ rows[i][2] \notin Attrs /\ rows[i][2] \notin NamesOf(rows))
      => Designates(rows, rows[i][2], Attrs) = rows[i][1]
ForeignIsNothing == \A t \in {"Z", "ZZ"} : Designates(rows, t, Attrs) = "-"
=============================================================================
