SPECIFICATION Spec
INVARIANT NameWins
INVARIANT LongAgrees
INVARIANT UniqueLongResolves
INVARIANT ForeignIsNothing
CHECK_DEADLOCK FALSE
