CONSTANTS
 MaxLen = 5
SPECIFICATION Spec
INVARIANT OnlyWhereItSpeaks
INVARIANT RestatingChangesNothing
INVARIANT ForbidReportsEveryOccurrence
CHECK_DEADLOCK FALSE
