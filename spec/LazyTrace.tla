----------------------------- MODULE LazyTrace -----------------------------
(* Judges recorded reads and writes on real elements against Lazy (C11).                                 *)
EXTENDS Lazy, Json, IOUtils
INSTANCE Er7

Events == ndJsonDeserialize(IOEnv.EVENTS)
VARIABLES l, nontriv, failed
vars == <<l, nontriv, failed>>

Rows(a) == {[p |-> a[i][1], v |-> a[i][2]] : i \in 1..Len(a)}
EcD == [F |-> 124, C |-> 94, S |-> 38, R |-> 126, E |-> 92, T |-> 0]

(* for a segment root: all non-empty leaves of the encoded text, as a set of [i, r, c, s, t] *)
SegLeaves(t) == LET sg == ParseSeg(t, EcD) IN
  UNION {{[i |-> i, r |-> x.r, c |-> x.c, s |-> x.s, t |-> x.t] : x \in NonEmptyLeaves(sg.fields[i])} : i \in 1..Len(sg.fields)}

(* e.op = "Same": one write (text with the delimiters of the message) made through a chain that did not exist yet   *)
(* (a) and through the same chain after its elements had been created with the add_* helpers (b): whether the chain  *)
(* existed must not matter - the elements created below it and the encoding are the same                               *)
Verdict(e) ==
  IF e.op = "Same"
  THEN IF e.outcome # "ok" THEN "write_raised"
       ELSE IF e.a # e.b \/ e.enca # e.encb THEN "write_through_pending_chain_differs_from_write_through_existing_chain"
       ELSE "ok"
  ELSE
  LET pre == Rows(e.pre) post == Rows(e.post) IN
  IF e.op = "Read"
  THEN IF e.outcome # "ok" THEN "read_raised"
       ELSE IF Len(e.post) # Len(e.pre) \/ ~ReadAllowed(pre, post) THEN "read_changed_children"
       ELSE IF e.encpost # e.encpre \/ e.trailpost # e.trailpre THEN "read_changed_encoding"
       ELSE IF e.validpost # e.validpre THEN "read_changed_validation"
       ELSE "ok"
  ELSE IF e.op = "Assign"
  THEN IF e.outcome # "ok" THEN "write_raised"
       ELSE IF Cardinality(post) # Len(e.post) THEN "write_created_element_twice"
       ELSE IF ~AssignAllowed(pre, post, e.path, e.leafpath, e.v) THEN "assignment_lost_or_created_something_else"
       ELSE "ok"
  ELSE IF e.outcome # "ok" THEN "write_raised"
       ELSE IF Cardinality(post) # Len(e.post) THEN "write_created_element_twice"
       ELSE IF ~WriteAllowed(pre, post, e.path, e.v) THEN "write_did_not_create_exactly_the_chain"
       ELSE IF e.pos # <<>> /\ SegLeaves(e.encpost) #
                 {x \in SegLeaves(e.encpre) : ~(x.i = e.pos[1] /\ x.r = 1 /\ x.c = e.pos[2] /\ x.s = e.pos[3])}
                 \cup {[i |-> e.pos[1], r |-> 1, c |-> e.pos[2], s |-> e.pos[3], t |-> e.v]}
            THEN "write_not_at_defined_position"
       ELSE "ok"

Init == l = 1 /\ nontriv = 0 /\ failed = 0
Next == /\ l <= Len(Events)
        /\ LET e == Events[l]
               v == Verdict(e)
           IN /\ IF v = "ok" THEN TRUE ELSE PrintT(<<"V", e.id, v>>)
              /\ nontriv' = nontriv + 1
              /\ failed' = failed + (IF v = "ok" THEN 0 ELSE 1)
        /\ l' = l + 1
Spec == Init /\ [][Next]_vars
Done == l = Len(Events) + 1 => PrintT(<<"S", Len(Events), nontriv, failed>>)
AllJudged == TLCGet("stats").diameter = Len(Events) + 1
=============================================================================
