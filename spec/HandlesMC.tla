----------------------------- MODULE HandlesMC -----------------------------
(* Every history of taking handles, assigning, attaching and writing through handles, up to MaxLen calls (a      *)
(* history ends at its first refusal).  The dumped histories are executed on real elements at both levels.       *)
EXTENDS Handles
CONSTANTS Strict, Hows, MaxLen
VARIABLES st, hist, out
vars == <<st, hist, out>>
Ops == [op : {"Take", "ProxyValue", "ProxyChild", "SetAttr", "WriteT"}, n : Names] \cup [op : {"Attach"}, n : Names, how : Hows]
Init == st = Init0 /\ hist = <<>> /\ out = "ok"
Next == /\ Len(hist) < MaxLen /\ out = "ok"
        /\ \E op \in Ops : /\ Enabled(st, op)
                           /\ LET r == Step(Strict, st, op) IN st' = r.st /\ out' = r.out
                           /\ hist' = Append(hist, op)
Spec == Init /\ [][Next]_vars
(* C05: under STRICT no name ever lists more children than its maximum, whatever the order of calls *)
CardinalityKept == Strict => \A n \in Names : (Max[n] = 0 \/ Len(st.lst[n]) <= Max[n]) /\ (out = "ok" => st.tg[n] <= GMax)
(* what STRICT accepts TOLERANT accepts, with the same result *)
SubsetOfTolerant == [][\A op \in Ops : Enabled(st, op) /\ Step(TRUE, st, op).out = "ok" => Step(FALSE, st, op) = Step(TRUE, st, op)]_vars
TypeOK == \A n \in Names : /\ st.ts[n] \in {"none", "pending", "listed", "detached"}
                           /\ (st.ts[n] = "listed") = Has(st.lst[n], "T")
                           /\ st.h2[n] # "no" => st.ts[n] # "none"
                           /\ st.h2[n] \in {"no", "cur", "old0", "old1"}
GInQ == [n \in Names |-> n # "A"]
MaxQ == [n \in Names |-> IF n = "A" THEN 1 ELSE 0]
HowsQ == {"add_name", "parent_kw", "insert"}
HowsOne == {"add_obj"}
HowsT == {"add_name", "add_obj", "parent_kw", "set_parent", "append", "insert"}
=============================================================================
