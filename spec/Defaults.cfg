CONSTANTS
 VersionChoice = {1, 2, 3}
 LevelChoice = {1, 2}
 EcChoice = {1, 2, 3}
 CallId = {1, 2}
 MaxLen = 4
SPECIFICATION Spec
INVARIANT Independent
CHECK_DEADLOCK FALSE
