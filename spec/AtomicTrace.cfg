SPECIFICATION Spec
CHECK_DEADLOCK FALSE
INVARIANT Done
POSTCONDITION AllJudged
