---------------------------- MODULE ElementTree ----------------------------
(* Reference semantics of hl7apy's element container, at the level of the public API                    *)
(* (properties C09 ordered-list edits, C10 tree consistency, C11 pure reads, C12 atomic rejections).     *)
(*                                                                                                        *)
(* A parent element holds an ordered list of child OBJECTS; a child has a name, a value (its ER7 text)   *)
(* and a validation level flag (lv = 1: same level as the parents, 0: the other level).  Per name the    *)
(* repetitions are the sub-list of children with that name, in list order.  Every public mutator is a    *)
(* function Succ(st, op) from a state and an operation to the SET of outcomes the properties allow:      *)
(* [st |-> state after, out |-> "ok" | "rej"].  Where the properties leave freedom (re-attaching an      *)
(* attached child may move it or be refused) the set has two members.  A rejected call leaves st as is.  *)
(* The same Succ drives the bounded model (ElementTreeMC) and judges recorded implementation steps       *)
(* (ElementTreeTrace).                                                                                    *)
EXTENDS Naturals, Sequences, FiniteSets, TLC

CONSTANTS Parents,      \* e.g. {1, 2}
          Obj,          \* pool of child object ids, a set of naturals
          Names,        \* child names the parents' structure defines, e.g. {"A","B","C"}
          MaxRep,       \* [Names -> Nat], 0 = unbounded
          Strict        \* BOOLEAN: parents validate strictly (cardinality enforced on attach)

Foreign == "Z"          \* a child name that exists in the version but is not a child of these parents
NoName == "-"

Range(s) == {s[i] : i \in 1..Len(s)}
RemoveAt(s, i) == SubSeq(s, 1, i - 1) \o SubSeq(s, i + 1, Len(s))
ReplaceAt(s, i, x) == [s EXCEPT ![i] = x]
InsertAt(s, i, x) == SubSeq(s, 1, i - 1) \o <<x>> \o SubSeq(s, i, Len(s))
PosOf(s, o) == CHOOSE i \in 1..Len(s) : s[i] = o
Min(S) == CHOOSE x \in S : \A y \in S : x <= y

Attached(st) == UNION {Range(st.kids[p]) : p \in Parents}
Alloc(st) == st.held \cup Attached(st)
Free(st) == Obj \ Alloc(st)
Fresh(st) == Min(Free(st))
InKids(st, p, o) == o \in Range(st.kids[p])
Reps(st, p, n) == SelectSeq(st.kids[p], LAMBDA o : st.nm[o] = n)
ParentOf(st, o) == CHOOSE p \in Parents : InKids(st, p, o)
Overflow(st, p, n) == Strict /\ n \in Names /\ MaxRep[n] > 0 /\ Len(Reps(st, p, n)) + 1 > MaxRep[n]

Ok(st)  == [st |-> st, out |-> "ok"]
Rej(st) == [st |-> st, out |-> "rej"]

WithObj(st, o, n, v, l) == [st EXCEPT !.nm[o] = n, !.val[o] = v, !.lv[o] = l]
Drop(st, o) == [st EXCEPT !.nm[o] = NoName, !.val[o] = <<>>, !.lv[o] = 1]     \* o is garbage: forget its attributes
AppendKid(st, p, o) == [st EXCEPT !.kids[p] = Append(@, o), !.held = @ \ {o}]
Admissible(st, p, o) == st.nm[o] \in Names /\ st.lv[o] = 1 /\ ~Overflow(st, p, st.nm[o])

(* replace the child at list position i of p by object o; the old child becomes garbage *)
ReplaceKid(st, p, i, o) ==
  LET old == st.kids[p][i] IN
  Drop([st EXCEPT !.kids[p] = ReplaceAt(@, i, o), !.held = @ \ {o}], old)

(* ---- assignment by name / by (name, index) with a string value: parse, then replace in place or append ---- *)
SetRep(st, p, n, i, v) ==      \* i is 0-based among the repetitions of n
  IF n \notin Names THEN {Rej(st)}
  ELSE IF Free(st) = {} THEN {}
  ELSE LET r == Reps(st, p, n)
           f == Fresh(st)
           st1 == WithObj(st, f, n, v, 1)
       IN IF i < Len(r)
          THEN {Ok(ReplaceKid(st1, p, PosOf(st.kids[p], r[i + 1]), f))}
          ELSE IF Overflow(st, p, n) THEN {Rej(st)} ELSE {Ok(AppendKid(st1, p, f))}

(* assignment of an existing element object c under name n (first repetition).  A free object replaces the  *)
(* first repetition in place (or is appended); an object attached somewhere may be refused or moved here.  *)
SetObj(st, p, n, c) ==
  IF n \notin Names \/ st.nm[c] # n \/ c \notin Alloc(st) THEN {Rej(st)}     \* wrong name / unknown object
  ELSE IF c \in st.held
  THEN LET r == Reps(st, p, n) IN
       IF r = <<>>
       THEN IF Admissible(st, p, c) THEN {Ok(AppendKid(st, p, c))} ELSE {Rej(st)}
       ELSE IF st.lv[c] = 1 THEN {Ok(ReplaceKid(st, p, PosOf(st.kids[p], r[1]), c))} ELSE {Rej(st)}
  ELSE LET q == ParentOf(st, c)
           st1 == [st EXCEPT !.kids[q] = RemoveAt(@, PosOf(@, c))]
           r == Reps(st1, p, n)
       IN {Rej(st)} \cup
          (IF q = p /\ Reps(st, p, n)[1] = c THEN {Ok(st)}
           ELSE IF r = <<>> THEN (IF Admissible(st1, p, c) THEN {Ok(AppendKid(st1, p, c))} ELSE {})
           ELSE {Ok(ReplaceKid(st1, p, PosOf(st1.kids[p], r[1]), c))}
                \* c is a later repetition of the same parent: the replaced child may also simply go, c staying where it is
                \cup (IF q = p THEN {Ok(Drop([st EXCEPT !.kids[p] = RemoveAt(@, PosOf(@, r[1]))], r[1]))} ELSE {}))

(* children[i] = v : replace the child at list position i (1-based here) by a parse of v under the same name *)
SetAt(st, p, i, v) ==
  IF i > Len(st.kids[p]) THEN {Rej(st)}
  ELSE IF Free(st) = {} THEN {}
  ELSE LET f == Fresh(st) IN {Ok(ReplaceKid(WithObj(st, f, st.nm[st.kids[p][i]], v, 1), p, i, f))}

(* p.<n>.<something below> = v, a write THROUGH the child: the first repetition of n is written in place (same   *)
(* object, new value); when there is none, the child the traversal created is attached with the value, like an     *)
(* assignment by name                                                                                              *)
SetDeep(st, p, n, v) ==
  IF n \notin Names THEN {Rej(st)}
  ELSE LET r == Reps(st, p, n) IN
       IF r = <<>> THEN SetRep(st, p, n, 0, v) ELSE {Ok([st EXCEPT !.val[r[1]] = v])}

(* children[i] = c with an element object c: refused unless c carries the name of the child at that position; *)
(* a free object of that name (and of the parent's level and version) replaces that child in place             *)
SetAtObj(st, p, i, c) ==
  IF i > Len(st.kids[p]) \/ c \notin Alloc(st) THEN {Rej(st)}
  ELSE IF st.nm[st.kids[p][i]] = NoName THEN {}            \* (position held by an unknown child: not modelled)
  ELSE IF st.nm[c] # st.nm[st.kids[p][i]] THEN {Rej(st)}
  ELSE IF c \in st.held THEN (IF st.lv[c] = 1 THEN {Ok(ReplaceKid(st, p, i, c))} ELSE {Rej(st)})
  ELSE {}                                                  \* (an object attached somewhere: SetObj's subject)

AddNew(st, p, n) ==            \* add_field / add_segment / ... : a new empty child is appended
  IF n \notin Names THEN {Rej(st)}
  ELSE IF Free(st) = {} THEN {}
  ELSE IF Overflow(st, p, n) THEN {Rej(st)}
  ELSE {Ok(AppendKid(WithObj(st, Fresh(st), n, <<>>, 1), p, Fresh(st)))}

(* attach an existing object: add(c) / c.parent = p *)
Attach(st, p, c) ==
  IF c \in st.held
  THEN IF Admissible(st, p, c) THEN {Ok(AppendKid(st, p, c))} ELSE {Rej(st)}
  ELSE IF InKids(st, p, c) THEN {Rej(st), Ok(st)}                 \* already there: refuse or do nothing
  ELSE IF c \in Attached(st)
       THEN LET q == ParentOf(st, c)
                st1 == [st EXCEPT !.kids[q] = RemoveAt(@, PosOf(@, c))]
            IN IF Admissible(st1, p, c) THEN {Rej(st), Ok(AppendKid(st1, p, c))} ELSE {Rej(st)}   \* refuse or move
       ELSE {Rej(st)}

(* children.insert(i, c): a free object is inserted at list position i; an attached one may be refused, *)
(* left where it is (same parent) or moved from the other parent                                                *)
Insert(st, p, i, c) ==
  LET At(s) == IF i > Len(s.kids[p]) + 1 THEN Len(s.kids[p]) + 1 ELSE i
      Put(s) == [s EXCEPT !.kids[p] = InsertAt(@, At(s), c), !.held = @ \ {c}]
  IN IF c \in st.held
     THEN IF Admissible(st, p, c) THEN {Ok(Put(st))} ELSE {Rej(st)}
     ELSE IF c \in Attached(st)
     THEN LET q == ParentOf(st, c)
              st1 == [st EXCEPT !.kids[q] = RemoveAt(@, PosOf(@, c))]
          IN IF q = p THEN {Rej(st), Ok(st)}
             ELSE IF Admissible(st1, p, c) THEN {Rej(st), Ok(Put(st1))} ELSE {Rej(st)}
     ELSE {Rej(st)}

Remove(st, p, c) ==            \* children.remove(c): c stays with the caller
  IF ~InKids(st, p, c) THEN {Rej(st)}
  ELSE {Ok([st EXCEPT !.kids[p] = RemoveAt(@, PosOf(@, c)), !.held = @ \cup {c}])}

Pop(st, p, i) ==               \* children.pop(i) (1-based here); the caller gets the child
  IF i > Len(st.kids[p]) THEN {Rej(st)}
  ELSE {Ok([st EXCEPT !.kids[p] = RemoveAt(@, i), !.held = @ \cup {st.kids[p][i]}])}

DelAt(st, p, i) ==             \* del children[i] (1-based here): the child at that list position is discarded
  IF i > Len(st.kids[p]) THEN {Rej(st)}
  ELSE {Ok(Drop([st EXCEPT !.kids[p] = RemoveAt(@, i)], st.kids[p][i]))}

DelRep(st, p, n, i) ==         \* del p.<n> (i = 0) / del p.<n>[i] : the child is discarded
  LET r == Reps(st, p, n) IN
  IF n \notin Names \/ i >= Len(r) THEN {Rej(st)}
  ELSE {Ok(Drop([st EXCEPT !.kids[p] = RemoveAt(@, PosOf(@, r[i + 1]))], r[i + 1]))}

CopyFrom(st, p, n, q) ==       \* p.<n> = q.<n> : the first repetition of q's n is copied by value
  LET r == Reps(st, q, n) IN
  IF n \notin Names \/ r = <<>> THEN {Rej(st)} ELSE SetRep(st, p, n, 0, st.val[r[1]])

(* p.children = q.children : the child LIST of another element is assigned.  The children move (an element has one  *)
(* parent): q is left without children, what p listed before is discarded.  Both parents have the same structure,    *)
(* level and version here, so nothing q lists can be refused by p.  p = q changes nothing.                            *)
Adopt(st, p, q) ==
  IF p = q THEN {Ok(st)}
  ELSE LET old == Range(st.kids[p])
           RECURSIVE DropAll(_, _)
           DropAll(s, os) == IF os = {} THEN s ELSE LET o == CHOOSE x \in os : TRUE IN DropAll(Drop(s, o), os \ {o})
       IN {Ok(DropAll([st EXCEPT !.kids[p] = st.kids[q], !.kids[q] = <<>>], old))}

NewFree(st, n, v, l) ==        \* the caller constructs a stand-alone element
  IF Free(st) = {} THEN {} ELSE {Ok([WithObj(st, Fresh(st), n, v, l) EXCEPT !.held = @ \cup {Fresh(st)}])}

Forget(st, c) == IF c \in st.held THEN {Ok(Drop([st EXCEPT !.held = @ \ {c}], c))} ELSE {}

SetVal(st, c, v) ==            \* c.value = v on an attached or free object: same object, new value
  IF c \in Alloc(st) THEN {Ok([st EXCEPT !.val[c] = v])} ELSE {}

Read(st) == {Ok(st)}           \* every observation, however deep (C11)

Succ(st, o) ==
  CASE o.op = "SetName"  -> SetRep(st, o.p, o.n, 0, o.v)
    [] o.op = "SetIdx"   -> SetRep(st, o.p, o.n, o.i, o.v)
    [] o.op = "SetObj"   -> SetObj(st, o.p, o.n, o.c)
    [] o.op = "SetAt"    -> SetAt(st, o.p, o.i, o.v)
    [] o.op = "SetAtObj" -> SetAtObj(st, o.p, o.i, o.c)
    [] o.op = "SetDeep"  -> SetDeep(st, o.p, o.n, o.v)
    [] o.op = "AddNew"   -> AddNew(st, o.p, o.n)
    [] o.op = "AddObj"   -> Attach(st, o.p, o.c)
    [] o.op = "Reparent" -> Attach(st, o.p, o.c)
    [] o.op = "Insert"   -> Insert(st, o.p, o.i, o.c)
    [] o.op = "Remove"   -> Remove(st, o.p, o.c)
    [] o.op = "Pop"      -> Pop(st, o.p, o.i)
    [] o.op = "DelAt"    -> DelAt(st, o.p, o.i)
    [] o.op = "DelName"  -> DelRep(st, o.p, o.n, 0)
    [] o.op = "DelIdx"   -> DelRep(st, o.p, o.n, o.i)
    [] o.op = "CopyFrom" -> CopyFrom(st, o.p, o.n, o.q)
    [] o.op = "Adopt"    -> Adopt(st, o.p, o.q)
    [] o.op = "NewFree"  -> NewFree(st, o.n, o.v, o.l)
    [] o.op = "Forget"   -> Forget(st, o.c)
    [] o.op = "SetVal"   -> SetVal(st, o.c, o.v)
    [] o.op = "Read"     -> Read(st)

EmptyState == [kids |-> [p \in Parents |-> <<>>],
               nm |-> [o \in Obj |-> NoName], val |-> [o \in Obj |-> <<>>], lv |-> [o \in Obj |-> 1],
               held |-> {}]

(* ---- what C10 demands of every state ---- *)
NoSharing(st) == \A p, q \in Parents : p # q => Range(st.kids[p]) \cap Range(st.kids[q]) = {}
NoDuplicates(st) == \A p \in Parents : \A i, j \in 1..Len(st.kids[p]) : i # j => st.kids[p][i] # st.kids[p][j]
HeldDetached(st) == st.held \cap Attached(st) = {}
OneLevel(st) == \A o \in Attached(st) : st.lv[o] = 1 /\ st.nm[o] \in Names
Cardinality1(st) == Strict => \A p \in Parents, n \in Names :
                                 MaxRep[n] > 0 => Len(Reps(st, p, n)) <= MaxRep[n]
Consistent(st) == NoSharing(st) /\ NoDuplicates(st) /\ HeldDetached(st) /\ OneLevel(st) /\ Cardinality1(st)

(* ---- what C09 demands of every successful edit: siblings keep their relative order ---- *)
Others(st, p, touched) == SelectSeq(st.kids[p], LAMBDA o : o \notin touched)
OrderKept(st, st2, p) ==
  LET keep == Range(st.kids[p]) \cap Range(st2.kids[p]) IN
  SelectSeq(st.kids[p], LAMBDA o : o \in keep) = SelectSeq(st2.kids[p], LAMBDA o : o \in keep)
=============================================================================
