CONSTANTS
 c1 = c1
 c2 = c2
 c3 = c3
 Conn = {c1, c2}
 Script <- Script2b
 Kind <- Kind2b
 ErrHandler = TRUE
SPECIFICATION Spec
INVARIANT AtMostOneCall
INVARIANT Outcome
INVARIANT FullFrameServed
INVARIANT LineIsPrefix
INVARIANT NoCrossTalk
INVARIANT ReplyOnlyAfterCall
PROPERTY EventuallyClosed
CHECK_DEADLOCK FALSE
