---------------------------- MODULE ResolveTrace ----------------------------
(* Judges how real elements resolved spellings (C14).  One event = one parent element with its rows, the   *)
(* element's attribute names, and a list of probes <<spelling (upper-cased), how, observed>> where observed   *)
(* is the name of the child reached ("-" when ChildNotFound / ChildNotValid was raised, "!Exc" for any other   *)
(* exception) and, for reads after a write, whether the object reached is the one that was written.            *)
EXTENDS Resolve, Json, IOUtils
Events == ndJsonDeserialize(IOEnv.EVENTS)
VARIABLES l, nontriv, failed
vars == <<l, nontriv, failed>>
Attrs(e) == {e.attrs[i] : i \in 1..Len(e.attrs)}
\* probe = [t, how, got, same, val]
ProbeVerdict(e, p) ==
  LET d == IF p.positional THEN p.expect ELSE Designates(e.rows, p.t, Attrs(e)) IN
  IF d = "?" THEN "ok"
  ELSE IF d = "-" THEN (IF p.got = "-" THEN "ok" ELSE IF p.got = "!" THEN "foreign_name_raised_other_exception" ELSE "foreign_name_reached_a_child")
  ELSE IF p.got = "-" THEN "designated_child_not_found"
  ELSE IF p.got = "!" THEN "designated_child_raised"
  ELSE IF p.got # d THEN "reached_another_child"
  \* the value / identity comparison only applies when the spelling used for the write designates this child too
  ELSE IF "wt" \in DOMAIN p /\ p.wt # "" /\ ~p.wpos /\ Designates(e.rows, p.wt, Attrs(e)) # d THEN "ok"
  ELSE IF ~p.same THEN "spellings_reach_different_objects"
  ELSE IF p.val # p.want THEN "value_differs_through_this_spelling"
  ELSE "ok"
FirstBad(e) ==
  LET bad == {i \in 1..Len(e.probes) : ProbeVerdict(e, e.probes[i]) # "ok"} IN
  IF bad = {} THEN 0 ELSE CHOOSE i \in bad : \A j \in bad : i <= j
Init == l = 1 /\ nontriv = 0 /\ failed = 0
Next == /\ l <= Len(Events)
        /\ LET e == Events[l]
               b == FirstBad(e)
               v == IF b = 0 THEN "ok" ELSE ProbeVerdict(e, e.probes[b])
           IN /\ IF v = "ok" THEN TRUE ELSE PrintT(<<"V", e.id, v, b>>)
              /\ nontriv' = nontriv + 1
              /\ failed' = failed + (IF v = "ok" THEN 0 ELSE 1)
        /\ l' = l + 1
Spec == Init /\ [][Next]_vars
Done == l = Len(Events) + 1 => PrintT(<<"S", Len(Events), nontriv, failed>>)
AllJudged == TLCGet("stats").diameter = Len(Events) + 1
=============================================================================
