SPECIFICATION Spec
CONSTANTS
 Names = {"A", "B"}
 Max <- MaxQ
 GIn <- GInQ
 Strict = TRUE
 Hows <- HowsOne
 MaxLen = 5
INVARIANT CardinalityKept
INVARIANT TypeOK
PROPERTY SubsetOfTolerant
CHECK_DEADLOCK FALSE
