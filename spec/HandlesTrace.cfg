SPECIFICATION Spec
CHECK_DEADLOCK FALSE
INVARIANT Done
POSTCONDITION AllJudged
CONSTANTS
 Names = {"A", "B"}
 Max <- MaxQ
 GIn <- GInQ
