CONSTANTS
 Mode = "num"
 MaxStr = 4
 Rich = FALSE
SPECIFICATION Spec
CHECK_DEADLOCK FALSE
INVARIANT DateIsDateTime
INVARIANT OffsetIsOptional
INVARIANT TimeExtendsDate
INVARIANT PlainIsValid
INVARIANT NumEqReflexive
INVARIANT UnspecifiedIsNotValid
