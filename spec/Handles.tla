------------------------------ MODULE Handles ------------------------------
(* Handles to children that exist only for traversal, kept by the caller across other calls (C05, C11).       *)
(*                                                                                                               *)
(* parent.<n> on a parent that lists no child named n hands out a stand-in child T(n) that is not listed.  The   *)
(* caller may keep something reached THROUGH it (h = parent.<n>.<g>); h is bound to the child list T(n) had at    *)
(* that moment.  A later write through h lists T(n) - at that moment, not when the handle was taken, the parent's *)
(* rules apply; in between the caller may have attached real children under the same name, assigned the name, or  *)
(* assigned T(n)'s whole value (which gives T(n) a new child list: h then adds a further <g> on every write).      *)
(*                                                                                                               *)
(* Per name: lst = the listed children in order ("T" = the stand-in, "R" = any other child),                      *)
(*           ts  = status of the stand-in (none / pending / listed / detached),                                   *)
(*           h2  = "no" / "cur" / "old0" / "old1": a handle is held and bound to T's current child list / to a     *)
(*                 replaced one in which <g> was not / was listed,                                                *)
(*           tg  = number of <g> children listed inside T (<g> may occur once).                                    *)
(* Step(strict, st, op) is the reference: a function to [st, out], used by the model, and by HandlesTrace to      *)
(* judge what the implementation did along the same history.                                                      *)
EXTENDS Naturals, Sequences, FiniteSets, TLC

CONSTANTS Names,        \* child names
          Max,          \* [Names -> Nat]: 0 = unbounded
          GIn           \* [Names -> BOOLEAN]: the text used for whole-value assignment contains <g>

GMax == 1
Init0 == [lst |-> [n \in Names |-> <<>>], ts |-> [n \in Names |-> "none"], h2 |-> [n \in Names |-> "no"],
          tg |-> [n \in Names |-> 0]]

Overflow(strict, st, n) == strict /\ Max[n] > 0 /\ Len(st.lst[n]) + 1 > Max[n]
Ok(st)  == [st |-> st, out |-> "ok"]
Rej(st) == [st |-> st, out |-> "rej"]
Has(s, x) == \E i \in 1..Len(s) : s[i] = x

Enabled(st, op) ==
  CASE op.op = "Take"   -> st.lst[op.n] = <<>> /\ st.ts[op.n] \in {"none", "pending"}
    [] op.op = "WriteT" -> st.h2[op.n] # "no"
    [] OTHER -> TRUE

(* T's whole value assigned: new content, new child list *)
Revalue(st, n) == [st EXCEPT !.tg[n] = IF GIn[n] THEN 1 ELSE 0,
                               !.h2[n] = IF @ = "cur" THEN (IF st.tg[n] > 0 THEN "old1" ELSE "old0") ELSE @]
(* <g> assigned by name inside T *)
SetG(st, n) == [st EXCEPT !.tg[n] = IF @ = 0 THEN 1 ELSE @]

Step(strict, st, op) ==
  LET n == op.n IN
  CASE op.op = "Take" ->          \* h = parent.<n>.<g>, kept
         Ok([st EXCEPT !.ts[n] = "pending", !.h2[n] = "cur"])
    [] op.op = "ProxyValue" ->    \* parent.<n>.value = text : through the name, into the first listed child or into the
                                  \* stand-in (created on the spot), which is listed first
         IF st.lst[n] = <<>>
         THEN IF Overflow(strict, st, n) THEN Rej(st)
              ELSE Ok(Revalue([st EXCEPT !.lst[n] = <<"T">>, !.ts[n] = "listed"], n))
         ELSE IF Head(st.lst[n]) = "T" THEN Ok(Revalue(st, n)) ELSE Ok(st)
    [] op.op = "ProxyChild" ->    \* parent.<n>.<g> = v : same target, its <g> assigned by name
         IF st.lst[n] = <<>>
         THEN IF Overflow(strict, st, n) THEN Rej(st)
              ELSE Ok(SetG([st EXCEPT !.lst[n] = <<"T">>, !.ts[n] = "listed"], n))
         ELSE IF Head(st.lst[n]) = "T" THEN Ok(SetG(st, n)) ELSE Ok(st)
    [] op.op = "SetAttr" ->       \* parent.<n> = text : a new child replaces the first listed one, or is the first
         IF st.lst[n] = <<>>
         THEN IF Overflow(strict, st, n) THEN Rej(st) ELSE Ok([st EXCEPT !.lst[n] = <<"R">>])
         ELSE Ok([st EXCEPT !.lst[n] = <<"R">> \o Tail(@),
                            !.ts[n] = IF Head(st.lst[n]) = "T" THEN "detached" ELSE @])
    [] op.op = "Attach" ->        \* a real child attached by add_x(name) / add(obj) / parent= / .parent = / append / insert
         IF Overflow(strict, st, n) THEN Rej(st)
         ELSE Ok([st EXCEPT !.lst[n] = IF op.how = "insert" THEN <<"R">> \o @ ELSE Append(@, "R")])
    [] op.op = "WriteT" ->        \* h.value = v through the kept handle
         IF st.h2[n] = "old1" THEN Ok(st)       \* h still sees the <g> of the replaced list: written there, not visible
         ELSE IF st.h2[n] = "old0"
         THEN \* h sees an empty list, whatever T lists now: it adds a further <g> to T
              IF strict /\ st.tg[n] + 1 > GMax THEN Rej(st) ELSE Ok([st EXCEPT !.tg[n] = @ + 1])
         ELSE IF st.tg[n] > 0 THEN Ok(st)                        \* <g> is listed in T: in place
         ELSE \* <g>'s stand-in is listed in T, then T in the parent
              LET s1 == [st EXCEPT !.tg[n] = 1] IN
              IF st.ts[n] = "pending"
              THEN IF Overflow(strict, st, n) THEN Rej(s1)
                   ELSE Ok([s1 EXCEPT !.lst[n] = Append(@, "T"), !.ts[n] = "listed"])
              ELSE Ok(s1)

Counts(st) == [n \in Names |-> Len(st.lst[n])]
=============================================================================
