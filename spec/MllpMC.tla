------------------------------- MODULE MllpMC -------------------------------
EXTENDS Mllp
CONSTANTS c1, c2, c3
Good1 == <<SBb, Pb, CRb, Pb, CRb, EBb, CRb>>
Good2 == <<SBb, Pb, Pb, CRb, EBb, CRb>>
NoTerm == <<SBb, Pb, EBb, CRb>>
NoSB == <<Pb, CRb, EBb, CRb>>
Undecodable == <<SBb, Pb, BADb, CRb, EBb, CRb>>
EmptyLine == <<SBb, Pb, CRb, CRb, EBb, CRb>>
Script2 == (c1 :> Good1) @@ (c2 :> Good2)
Kind2 == (c1 :> "reg") @@ (c2 :> "unreg")
Script2b == (c1 :> NoTerm) @@ (c2 :> Undecodable)
Kind2b == (c1 :> "nonhl7") @@ (c2 :> "reg")
Script2c == (c1 :> NoSB) @@ (c2 :> EmptyLine)
Script3 == (c1 :> Good2) @@ (c2 :> NoTerm) @@ (c3 :> Good2)
Kind3 == (c1 :> "reg") @@ (c2 :> "unreg") @@ (c3 :> "nonhl7")
=============================================================================
