CONSTANTS
 Guarded = TRUE
 MaxDepth = 0
SPECIFICATION Spec
INVARIANT NoCrash
INVARIANT Total
CHECK_DEADLOCK FALSE
