------------------------------- MODULE Resolve -------------------------------
(* C14: which child a spelling designates.  A parent's structure is a sequence of rows <<name, long>>    *)
(* (upper case).  A child is designated by its HL7 name, by its long name when that long name belongs to   *)
(* exactly one row, is not the name of another row and is not one of the element's own attribute names,    *)
(* in any letter case (the harness folds case; the rows are upper case).  Everything else designates        *)
(* nothing ("-") — or, for long names that are ambiguous or shadowed, is left unspecified ("?").            *)
EXTENDS Naturals, Sequences, FiniteSets, TLC

NamesOf(rows) == {rows[i][1] : i \in 1..Len(rows)}
RowsWithLong(rows, t) == {i \in 1..Len(rows) : rows[i][2] = t}
ByName(rows, t) == IF t \in NamesOf(rows) THEN t ELSE "-"
ByLong(rows, t, attrs) ==
  LET m == RowsWithLong(rows, t) IN
  IF m = {} THEN "-"
  ELSE IF Cardinality(m) > 1 \/ t \in attrs \/ t \in NamesOf(rows) THEN "?"
  ELSE rows[CHOOSE i \in m : TRUE][1]
\* a spelling is tried as a name first, then as a long name
Designates(rows, t, attrs) == IF ByName(rows, t) # "-" THEN ByName(rows, t) ELSE ByLong(rows, t, attrs)
=============================================================================
