----------------------------- MODULE HeaderTrace -----------------------------
(* Judges what parse_message / get_message_type / to_er7 / validate did with arbitrary text (C15).        *)
(* e = [lvl, hdr (first line, code points), gmt, gmt_lib, parse, parse_lib, er7, val]: *_lib says whether     *)
(* the raised exception is an HL7apyException.                                                                *)
EXTENDS Header, Json, IOUtils
Events == ndJsonDeserialize(IOEnv.EVENTS)
VARIABLES l, nontriv, failed
vars == <<l, nontriv, failed>>
Verdict(e) ==
  IF e.gmt # "ok" /\ ~e.gmt_lib THEN "get_message_type_leaked_a_non_library_exception"
  ELSE IF e.parse # "ok" /\ ~e.parse_lib /\ ~(e.lvl = "S" /\ e.parse = "ValueError")
       THEN "parse_message_leaked_a_non_library_exception"
  ELSE IF e.parse = "ok" /\ e.er7 # "ok" THEN "to_er7_failed_on_a_parsed_message"
  ELSE IF e.parse = "ok" /\ e.val # "report" THEN "validate_raised_instead_of_reporting"
  ELSE "ok"
\* conformance of the transcription (informational: printed as "D" lines, never a verdict)
Drift(e) == LET m == SplitMsh(e.hdr, TRUE) IN
            (m = "ok") # (e.gmt = "ok") \/ (m # "ok" /\ e.gmt # m)
Init == l = 1 /\ nontriv = 0 /\ failed = 0
Next == /\ l <= Len(Events)
        /\ LET e == Events[l]
               v == Verdict(e)
           IN /\ IF v = "ok" THEN TRUE ELSE PrintT(<<"V", e.id, v>>)
              /\ IF Drift(e) THEN PrintT(<<"D", e.id, SplitMsh(e.hdr, TRUE), e.gmt>>) ELSE TRUE
              /\ nontriv' = nontriv + 1
              /\ failed' = failed + (IF v = "ok" THEN 0 ELSE 1)
        /\ l' = l + 1
Spec == Init /\ [][Next]_vars
Done == l = Len(Events) + 1 => PrintT(<<"S", Len(Events), nontriv, failed>>)
AllJudged == TLCGet("stats").diameter = Len(Events) + 1
=============================================================================
