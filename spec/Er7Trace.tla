----------------------------- MODULE Er7Trace -----------------------------
(* Judges observations of the real codec (NDJSON events written by the harness) against Er7.            *)
(* One state per event; verdicts are total: a failing event is reported and the cursor moves on.        *)
EXTENDS Er7, Json, IOUtils

Events == ndJsonDeserialize(IOEnv.EVENTS)

VARIABLES l, nontriv, failed
vars == <<l, nontriv, failed>>

Ec(e) == [F |-> e.ec[1], C |-> e.ec[2], S |-> e.ec[3], R |-> e.ec[4], E |-> e.ec[5], T |-> e.ec[6]]

(* ---------------- C02: position law ---------------- *)
\* e = [k |-> "pos", i, j, k2, val, outcome, enc, pnames, pread, name]
PosVerdict(e) ==
  IF e.outcome # "ok" THEN "raised"
  ELSE LET seg == ParseSeg(e.enc, Ec(e)) IN
       IF ~OnlyLeafAt(seg, e.i, e.j, e.s, e.val) THEN "position"
       ELSE IF e.pnames # (IF seg.name = MSHname THEN <<"MSH_1", e.name>> ELSE <<e.name>>) THEN "parsed_name"
       ELSE IF e.pread # e.val THEN "parsed_value"
       ELSE "ok"

Verdict(e) == CASE e.k = "pos" -> PosVerdict(e)
                [] OTHER -> "unknown_event_kind"
Premise(e) == TRUE

Init == l = 1 /\ nontriv = 0 /\ failed = 0
Next == /\ l <= Len(Events)
        /\ LET e == Events[l]
               p == Premise(e)
               v == IF p THEN Verdict(e) ELSE "ok"
           IN /\ IF p THEN TRUE ELSE PrintT(<<"T", e.id>>)
              /\ IF v = "ok" THEN TRUE ELSE PrintT(<<"V", e.id, v>>)
              /\ nontriv' = nontriv + (IF p THEN 1 ELSE 0)
              /\ failed' = failed + (IF v = "ok" THEN 0 ELSE 1)
        /\ l' = l + 1
Spec == Init /\ [][Next]_vars
Done == l = Len(Events) + 1 => PrintT(<<"S", Len(Events), nontriv, failed>>)
AllJudged == TLCGet("stats").diameter = Len(Events) + 1
=============================================================================
