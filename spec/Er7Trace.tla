----------------------------- MODULE Er7Trace -----------------------------
(* Judges observations of the real codec (NDJSON events written by the harness) against Er7.            *)
(* One state per event; verdicts are total: a failing event is reported and the cursor moves on.        *)
EXTENDS Er7, Json, IOUtils

Events == ndJsonDeserialize(IOEnv.EVENTS)

VARIABLES l, nontriv, failed
vars == <<l, nontriv, failed>>

Ec(e) == [F |-> e.ec[1], C |-> e.ec[2], S |-> e.ec[3], R |-> e.ec[4], E |-> e.ec[5], T |-> e.ec[6]]

(* ---------------- C02: position law ---------------- *)
\* e = [k |-> "pos", i, j, k2, val, outcome, enc, pnames, pread, name]
PosVerdict(e) ==
  IF e.outcome # "ok" THEN "raised"
  ELSE LET seg == ParseSeg(e.enc, Ec(e)) IN
       IF e.i = 0      \* a segment without fields: instantiated, encoded and parsed, nothing to place
       THEN (IF \A n \in 1..Len(seg.fields) : NonEmptyLeaves(seg.fields[n]) = {} THEN "ok" ELSE "position")
       ELSE IF ~OnlyLeafAt(seg, e.i, e.j, e.s, e.val) THEN "position"
       ELSE IF e.pnames # (IF seg.name = MSHname THEN <<"MSH_1", e.name>> ELSE <<e.name>>) THEN "parsed_name"
       ELSE IF e.pread # e.val THEN "parsed_value"
       ELSE "ok"

(* ---------------- C02: several positions populated at once ---------------- *)
\* e = [k |-> "full", idx : Seq(Nat), vals : Seq(Text), enc, pnames, preads]: field idx[n] holds vals[n], nothing else
FirstLeaf(f) == f[1][1][1]
FullVerdict(e) ==
  IF e.outcome # "ok" THEN "raised"
  ELSE LET seg == ParseSeg(e.enc, Ec(e))
           lo == IF seg.name = MSHname THEN 3 ELSE 1
           want(n) == IF \E k \in 1..Len(e.idx) : e.idx[k] = n
                      THEN e.vals[CHOOSE k \in 1..Len(e.idx) : e.idx[k] = n] ELSE <<>>
       IN IF \E k \in 1..Len(e.idx) : e.idx[k] > Len(seg.fields) THEN "position"
          ELSE IF \E n \in lo..Len(seg.fields) :
                    \/ (want(n) = <<>> /\ NonEmptyLeaves(seg.fields[n]) # {})
                    \/ (want(n) # <<>> /\ NonEmptyLeaves(seg.fields[n]) # {[r |-> 1, c |-> 1, s |-> 1, t |-> want(n)]})
               THEN "position"
          ELSE IF e.preads # e.vals THEN "parsed_value"
          ELSE "ok"

(* ---------------- C01: parse -> encode is the identity on canonical text within the defined shape ---------------- *)
\* e = [k |-> "rt", api, text, out, outcome, shape : Seq(<<i, kind, ncomp, nsubs : Seq(Nat)>>), open (BOOLEAN), fam]
Esc == INSTANCE Escape
EscEc(e) == [F |-> e.ec[1], C |-> e.ec[2], S |-> e.ec[3], R |-> e.ec[4], E |-> e.ec[5], T |-> e.ec[6]]
RowOf(e, n) == IF \E k \in 1..Len(e.shape) : e.shape[k][1] = n THEN e.shape[CHOOSE k \in 1..Len(e.shape) : e.shape[k][1] = n] ELSE <<0, "none", 0, <<>>>>
FieldWithin(e, f, n) ==
  LET row == RowOf(e, n) IN
  IF EmptyField(f) THEN TRUE
  ELSE IF row[2] = "none" THEN e.open           \* beyond the defined fields: only open-ended segments
  ELSE IF row[2] = "varies" THEN TRUE
  ELSE \A r \in 1..Len(f) :
         /\ Len(f[r]) <= (IF row[2] = "base" THEN 1 ELSE row[3])
         /\ \A c \in 1..Len(f[r]) : Len(f[r][c]) <= (IF row[2] = "base" THEN 1 ELSE IF c <= Len(row[4]) THEN row[4][c] ELSE 1)
\* (a truncation character in the text is a delimiter to be escaped, not clean text)
LeafOk(e, t) == NoEdgeBlank(t) /\ Esc!WellFormed(t, EscEc(e), e.fam) /\ (e.ec[6] # 0 => \A i \in 1..Len(t) : t[i] # e.ec[6])
RtPremise(e) ==
  LET seg == ParseSeg(e.text, Ec(e))
      lo == IF seg.name = MSHname THEN 3 ELSE 1 IN
  /\ NoTrailSeg(seg)
  /\ \A n \in lo..Len(seg.fields) :
        /\ FieldWithin(e, seg.fields[n], n)
        /\ \A x \in FieldLeaves(seg.fields[n]) : LeafOk(e, x.t)
RtVerdict(e) == IF e.outcome # "ok" THEN "raised" ELSE IF e.out # e.text THEN "text_changed" ELSE "ok"

(* ---------------- C07: the message's delimiter set governs its whole encoding ---------------- *)
\* e = [k |-> "delims", ec, doc : Seq([name, fields]), out, mllp, ecs : Seq(ec lists read back on the message and
\*      every descendant), pec (set recovered by parsing out), reenc, outcome]
DocOf(e) == [i \in 1..Len(e.doc) |-> [name |-> e.doc[i].name, fields |-> e.doc[i].fields]]
DelimsVerdict(e) ==
  LET ec == Ec(e) IN
  IF e.outcome # "ok" THEN "raised"
  ELSE IF e.out # EncMsg(DocOf(e), ec) THEN "encoding_is_not_the_tree_joined_with_the_given_delimiters"
  ELSE IF EcOfText(e.out) # ec THEN "msh_1_2_do_not_spell_the_set"
  ELSE IF (Len(SplitOn(SegLines(e.out)[1], ec.F)[2]) = 5) # (ec.T # 0) THEN "truncation_character_emitted_iff_supplied"
  ELSE IF \E i \in 1..Len(e.ecs) : e.ecs[i] # e.ec THEN "encoding_chars_read_back_differently_on_some_element"
  ELSE IF e.pec # e.ec THEN "parsing_the_output_recovers_another_set"
  ELSE IF e.reenc # e.out THEN "reparsed_tree_encodes_differently"
  ELSE IF e.mllp # (<<11>> \o e.out) \o <<13, 28, 13>> THEN "to_mllp_not_framed_with_the_same_text"
  ELSE "ok"
BadDelimsVerdict(e) == IF e.outcome # "InvalidEncodingChars" THEN "defective_set_not_rejected_with_InvalidEncodingChars" ELSE "ok"

Verdict(e) == CASE e.k = "pos" -> PosVerdict(e)
                [] e.k = "delims" -> DelimsVerdict(e)
                [] e.k = "baddelims" -> BadDelimsVerdict(e)
                [] e.k = "rt" -> RtVerdict(e)
                [] e.k = "full" -> FullVerdict(e)
                [] OTHER -> "unknown_event_kind"
Premise(e) == IF e.k = "rt" THEN RtPremise(e) ELSE TRUE

Init == l = 1 /\ nontriv = 0 /\ failed = 0
Next == /\ l <= Len(Events)
        /\ LET e == Events[l]
               p == Premise(e)
               v == IF p THEN Verdict(e) ELSE "ok"
           IN /\ IF p THEN TRUE ELSE PrintT(<<"T", e.id>>)
              /\ IF v = "ok" THEN TRUE ELSE PrintT(<<"V", e.id, v>>)
              /\ nontriv' = nontriv + (IF p THEN 1 ELSE 0)
              /\ failed' = failed + (IF v = "ok" THEN 0 ELSE 1)
        /\ l' = l + 1
Spec == Init /\ [][Next]_vars
Done == l = Len(Events) + 1 => PrintT(<<"S", Len(Events), nontriv, failed>>)
AllJudged == TLCGet("stats").diameter = Len(Events) + 1
=============================================================================
