CONSTANTS
 Parents = {1, 2}
 Obj = {1, 2, 3}
 Names = {"A", "B"}
 MaxKids = 2
 MaxHeld = 1
SPECIFICATION Spec
INVARIANT StrictSubsetOfTolerant
INVARIANT StrictStatesAreClean
CHECK_DEADLOCK FALSE
