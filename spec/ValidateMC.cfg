CONSTANTS
 MaxLen = 6
SPECIFICATION Spec
INVARIANT OnlyCardinality
INVARIANT MissingA
INVARIANT LimitE
CHECK_DEADLOCK FALSE
