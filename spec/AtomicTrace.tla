----------------------------- MODULE AtomicTrace -----------------------------
(* C12 for operations outside the container model (whole-value assignment, children list assignment,       *)
(* datatype change, invalid leaf values, deleting absent children): when the call raised, the recursive       *)
(* projection (names, in order, at every level), the encoding of the target and of its root are unchanged.    *)
EXTENDS Naturals, Sequences, TLC, Json, IOUtils
Events == ndJsonDeserialize(IOEnv.EVENTS)
VARIABLES l, nontriv, failed
vars == <<l, nontriv, failed>>
Verdict(e) ==
  IF e.outcome = "ok" THEN "ok"
  ELSE IF e.enc_after # e.enc_before THEN "rejected_call_changed_the_encoding"
  ELSE IF e.tree_after # e.tree_before THEN "rejected_call_changed_the_children"
  ELSE IF e.root_after # e.root_before THEN "rejected_call_changed_an_ancestor"
  ELSE IF e.trail_after # e.trail_before THEN "rejected_call_changed_the_encoding"      \* (with trailing children)
  ELSE "ok"
(* C10 on the same probes, whatever the outcome: e.links = every (lister, listed child) pair below the root of the     *)
(* target and below any other element the call involved: <<lister, child, child.parent is lister, same version/level>> *)
ConsistencyVerdict(e) ==
  IF \E i \in 1..Len(e.links) : ~e.links[i][3] THEN "listed_child_reports_another_parent"
  ELSE IF \E i, j \in 1..Len(e.links) : i # j /\ e.links[i][2] = e.links[j][2] THEN "element_listed_twice"
  ELSE IF \E i \in 1..Len(e.links) : ~e.links[i][4] THEN "mixed_version_or_level_in_one_tree"
  ELSE "ok"
Init == l = 1 /\ nontriv = 0 /\ failed = 0
Next == /\ l <= Len(Events)
        /\ LET e == Events[l]
               a == Verdict(e)
               b == ConsistencyVerdict(e)
               v == IF a # "ok" /\ b # "ok" THEN a \o "+" \o b ELSE IF a # "ok" THEN a ELSE b
               pm == e.outcome # "ok"
           IN /\ IF pm THEN TRUE ELSE PrintT(<<"T", e.id>>)
              /\ IF v = "ok" THEN TRUE ELSE PrintT(<<"V", e.id, v>>)
              /\ nontriv' = nontriv + (IF pm THEN 1 ELSE 0)
              /\ failed' = failed + (IF v = "ok" THEN 0 ELSE 1)
        /\ l' = l + 1
Spec == Init /\ [][Next]_vars
Done == l = Len(Events) + 1 => PrintT(<<"S", Len(Events), nontriv, failed>>)
AllJudged == TLCGet("stats").diameter = Len(Events) + 1
=============================================================================
