---------------------------- MODULE EscapeTrace ----------------------------
(* Judges observed encodings of textual leaves against Escape!Allowed (C06).                             *)
EXTENDS Escape, Json, IOUtils
INSTANCE Er7

Events == ndJsonDeserialize(IOEnv.EVENTS)
VARIABLES l, nontriv, failed
vars == <<l, nontriv, failed>>
Ec(e) == [F |-> e.ec[1], C |-> e.ec[2], S |-> e.ec[3], R |-> e.ec[4], E |-> e.ec[5], T |-> e.ec[6]]

\* e.k = "leaf": datatype object .to_er7(ec);  e.k = "inseg": value assigned through a datatype object, whole
\* segment encoded: the number of fields / components / subcomponents must be what an inert value gives
Verdict(e) ==
  LET ec == Ec(e) IN
  IF e.outcome # "ok" THEN "raised"
  ELSE IF e.k = "leaf"
  THEN IF ~DelimSafe(e.out, ec, e.fam) THEN "delimiter_unescaped"
       ELSE IF ~WellFormed(e.out, ec, e.fam) THEN "lone_escape_character"
       ELSE IF "hl" \in DOMAIN e /\ e.hl THEN "ok"     \* (highlight markers are added: only safety and well-formedness are claimed)
       ELSE IF Stable(e.in, ec, e.fam) /\ e.out # e.in THEN "escaped_text_not_emitted_unchanged"
       ELSE IF e.out2 # e.out THEN "not_idempotent"
       ELSE "ok"
  ELSE LET a == ParseSeg(e.seg, ec) b == ParseSeg(e.inert, ec) IN
       IF Len(a.fields) # Len(b.fields) THEN "field_count_changed"
       ELSE IF \E i \in 1..Len(a.fields) : Len(a.fields[i]) # Len(b.fields[i]) THEN "repetition_count_changed"
       ELSE IF \E i \in 1..Len(a.fields) : \E r \in 1..Len(a.fields[i]) :
                 Len(a.fields[i][r]) # Len(b.fields[i][r]) THEN "component_count_changed"
       ELSE IF \E i \in 1..Len(a.fields) : \E r \in 1..Len(a.fields[i]) : \E c \in 1..Len(a.fields[i][r]) :
                 Len(a.fields[i][r][c]) # Len(b.fields[i][r][c]) THEN "subcomponent_count_changed"
       \* (an empty text leaves a present-but-empty element whose separators a re-parse trims: nothing was escaped)
       ELSE IF e.in # <<>> /\ e.reparsed # e.seg THEN "reparse_reencode_differs"
       \* (e.orig: the segment text that was parsed, when the value came in by parsing)
       ELSE IF "orig" \in DOMAIN e /\ e.orig # <<>> /\ e.seg # e.orig THEN "text_read_from_a_parsed_segment_reencodes_differently"
       ELSE "ok"
\* non-trivial: the input holds a delimiter or an escape character
Premise(e) == e.k # "leaf" \/ \E i \in 1..Len(e.in) : e.in[i] \in Delims(Ec(e), e.fam) \cup {e.ec[5]}

Init == l = 1 /\ nontriv = 0 /\ failed = 0
Next == /\ l <= Len(Events)
        /\ LET e == Events[l]
               v == Verdict(e)
               pm == Premise(e)
           IN /\ IF pm THEN TRUE ELSE PrintT(<<"T", e.id>>)
              /\ IF v = "ok" THEN TRUE ELSE PrintT(<<"V", e.id, v>>)
              /\ nontriv' = nontriv + (IF pm THEN 1 ELSE 0)
              /\ failed' = failed + (IF v = "ok" THEN 0 ELSE 1)
        /\ l' = l + 1
Spec == Init /\ [][Next]_vars
Done == l = Len(Events) + 1 => PrintT(<<"S", Len(Events), nontriv, failed>>)
AllJudged == TLCGet("stats").diameter = Len(Events) + 1
=============================================================================
