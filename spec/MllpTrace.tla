----------------------------- MODULE MllpTrace -----------------------------
(* Judges what real connections to the hl7apy MLLP server did (C16): per connection the bytes the client   *)
(* delivered, the handler invocations it caused, the bytes it got back and whether it was closed.          *)
EXTENDS MllpFrame, Json, IOUtils

Events == ndJsonDeserialize(IOEnv.EVENTS)
VARIABLES l, nontriv, failed
vars == <<l, nontriv, failed>>

Take(s, n) == SubSeq(s, 1, n)
\* the server reads 3 bytes, then byte by byte up to the first EB CR: that is all it ever looks at
Consumed(d) ==
  LET ends == {n \in 2..Len(d) : d[n - 1] = EBb /\ d[n] = CRb /\ (n >= 3 \/ n = Len(d))} IN
  IF ends = {} THEN d ELSE Take(d, CHOOSE n \in ends : \A m \in ends : n <= m)

ConnVerdict(e) ==
  LET h == ExpHandler(e.kind, e.err, Consumed(e.delivered)) IN
  IF Len(e.calls) > 1 THEN "more_than_one_handler_invocation"
  ELSE IF h = "-"
  THEN IF e.calls # <<>> THEN "handler_invoked_for_bad_or_incomplete_frame"
       ELSE IF e.out # <<>> THEN "reply_without_request"
       ELSE IF ~e.closed THEN "connection_not_closed" ELSE "ok"
  ELSE IF e.calls = <<>> THEN "no_handler_invocation_for_good_frame"
       ELSE IF e.calls[1][1] # h THEN "wrong_handler"
       ELSE IF e.calls[1][2] # Payload(Consumed(e.delivered)) THEN "handler_got_other_text_than_framed"
       ELSE IF e.out # e.reply THEN "wrong_or_foreign_reply"
       ELSE IF ~e.closed THEN "connection_not_closed" ELSE "ok"

FrameVerdict(e) ==
  IF e.mllp # Frame(e.er7) THEN "to_mllp_is_not_SB_er7_CR_EB_CR"
  ELSE IF e.extracted # e.er7 /\ e.extracted # Append(e.er7, CRb) THEN "server_extracts_other_text_than_framed"
  ELSE IF e.reparsed # e.er7 THEN "extracted_text_reparses_differently"
  ELSE "ok"

Verdict(e) == IF e.k = "conn" THEN ConnVerdict(e) ELSE FrameVerdict(e)
\* non-trivial: a complete good frame, or a delivery that stops inside a frame
Premise(e) == TRUE

Init == l = 1 /\ nontriv = 0 /\ failed = 0
Next == /\ l <= Len(Events)
        /\ LET e == Events[l]
               v == Verdict(e)
           IN /\ IF v = "ok" THEN TRUE ELSE PrintT(<<"V", e.id, v>>)
              /\ nontriv' = nontriv + 1
              /\ failed' = failed + (IF v = "ok" THEN 0 ELSE 1)
        /\ l' = l + 1
Spec == Init /\ [][Next]_vars
Done == l = Len(Events) + 1 => PrintT(<<"S", Len(Events), nontriv, failed>>)
AllJudged == TLCGet("stats").diameter = Len(Events) + 1
=============================================================================
