CONSTANTS
 MaxLen = 6
SPECIFICATION Spec
INVARIANT PrescribedIsSound
INVARIANT PrescribedFlattens
INVARIANT PrescribedNoEmptyGroup
INVARIANT PrescribedDocumentOrder
CHECK_DEADLOCK FALSE
