---------------------------- MODULE ValidateTrace ----------------------------
(* Judges validate() on real messages (C04): the reported errors at message / group / segment level must   *)
(* be exactly the ones Validate prescribes for the observed tree, and the four ways of asking agree.        *)
EXTENDS Validate, Json, IOUtils
Events == ndJsonDeserialize(IOEnv.EVENTS)
VARIABLES l, nontriv, failed
vars == <<l, nontriv, failed>>
S(e) == [i \in 1..Len(e.struct) |-> [name |-> e.struct[i][1], kind |-> e.struct[i][2], min |-> e.struct[i][3],
                                      max |-> e.struct[i][4], par |-> e.struct[i][5]]]
Rows(e) == [i \in 1..Len(e.tree) |-> [name |-> e.tree[i][1], kind |-> e.tree[i][2], par |-> e.tree[i][3], z |-> e.tree[i][4]]]
SetOf(s) == {s[i] : i \in 1..Len(s)}
Expected(e) == StructErrors(S(e), Rows(e), e.sid)
               \cup UNION {IF Visited(S(e), Rows(e), e.segs[k].row) THEN SegErrors(e.segs[k]) ELSE {} : k \in 1..Len(e.segs)}
Lines(errs, warns) == [i \in 1..(Len(errs) + Len(warns)) |->
                         IF i <= Len(errs) THEN <<"Error", errs[i]>> ELSE <<"Warning", warns[i - Len(errs)]>>]
Verdict(e) ==
  IF e.outcome = "order" THEN (IF e.fwd = e.rev THEN "ok" ELSE "verdict_depends_on_what_was_validated_before") ELSE
  LET exp == Expected(e) obs == SetOf(e.errors) IN
  IF e.outcome # "report" THEN "validate_raised"
  ELSE IF \E x \in exp : x \notin obs THEN (IF \E x \in exp : x \notin obs /\ x[1] = "missing" THEN "missing_required_child_not_reported"
                                           ELSE IF \E x \in exp : x \notin obs /\ x[1] = "limit" THEN "exceeded_cardinality_not_reported"
                                           ELSE "foreign_or_unknown_child_not_reported")
  ELSE IF \E x \in obs : x \notin exp THEN "error_reported_for_a_conforming_element"
  ELSE IF e.is_valid # (e.err_texts = <<>>) THEN "is_valid_disagrees_with_error_list"
  ELSE IF e.raised # (IF e.err_texts = <<>> THEN "-" ELSE e.err_texts[1]) THEN "raising_form_raises_another_error"
  ELSE IF e.file_lines # Lines(e.err_texts, e.warn_texts) THEN "report_file_object_differs"
  ELSE IF e.path_lines # Lines(e.err_texts, e.warn_texts) THEN "report_file_path_differs"
  ELSE IF e.enc_after # e.enc_before THEN "validate_changed_the_encoding"
  ELSE IF e.err_texts2 # e.err_texts \/ e.warn_texts2 # e.warn_texts THEN "validate_not_deterministic"
  ELSE "ok"
Init == l = 1 /\ nontriv = 0 /\ failed = 0
Next == /\ l <= Len(Events)
        /\ LET e == Events[l]
               v == Verdict(e)
               pm == IF e.outcome = "order" THEN TRUE ELSE Expected(e) # {}
           IN /\ IF v = "ok" THEN TRUE ELSE PrintT(<<"V", e.id, v>>)
              /\ nontriv' = nontriv + (IF pm THEN 1 ELSE 0)
              /\ failed' = failed + (IF v = "ok" THEN 0 ELSE 1)
        /\ l' = l + 1
Spec == Init /\ [][Next]_vars
Done == l = Len(Events) + 1 => PrintT(<<"S", Len(Events), nontriv, failed>>)
AllJudged == TLCGet("stats").diameter = Len(Events) + 1
=============================================================================
