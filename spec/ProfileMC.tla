------------------------------ MODULE ProfileMC ------------------------------
(* C18: a message profile is the standard structure with constraint edits.  The verdict function of         *)
(* Validate, given the profile's structure, differs from the verdict under the standard structure only in     *)
(* errors that name the edited child - the profile replaces the standard wherever it speaks, and only there -   *)
(* and a profile that restates the standard changes nothing.  Checked over one nested structure x every single   *)
(* edit x all forests the prescription builds from inputs of bounded length.                                     *)
EXTENDS Validate
LOCAL INSTANCE GroupFinder
N(n, k, mn, mx, p) == [name |-> n, kind |-> k, min |-> mn, max |-> mx, par |-> p]
S1 == <<N("A", "SEG", 1, 1, 0), N("G1", "GRP", 0, -1, 0), N("B", "SEG", 1, 1, 2), N("G2", "GRP", 0, -1, 2),
        N("C", "SEG", 1, 1, 4), N("D", "SEG", 0, -1, 4), N("E", "SEG", 0, 1, 0)>>
Edits == {"restate", "tighten", "require", "forbid"}
Apply(S, i, ed) == [S EXCEPT ![i] = CASE ed = "restate" -> @
                                      [] ed = "tighten" -> [@ EXCEPT !.max = 1]
                                      [] ed = "require" -> [@ EXCEPT !.min = 1]
                                      [] ed = "forbid" -> [@ EXCEPT !.min = 0, !.max = 0]]
CONSTANTS MaxLen
VARIABLES input, node, edit
vars == <<input, node, edit>>
Names == {"A", "B", "C", "D", "E"}
Init == input = <<>> /\ node \in 1..Len(S1) /\ edit \in Edits
Next == Len(input) < MaxLen /\ (\E n \in Names : input' = Append(input, n)) /\ UNCHANGED <<node, edit>>
Spec == Init /\ [][Next]_vars
WithZ(rows) == [i \in 1..Len(rows) |-> [name |-> rows[i].name, kind |-> rows[i].kind, par |-> rows[i].par, z |-> FALSE]]
Forest == WithZ(Prescribed(S1, input))
Std == StructErrors(S1, Forest, "M")
Prof == StructErrors(Apply(S1, node, edit), Forest, "M")
OnlyWhereItSpeaks == \A x \in (Std \ Prof) \cup (Prof \ Std) : x[3] = S1[node].name
RestatingChangesNothing == edit = "restate" => Prof = Std
ForbidReportsEveryOccurrence ==
  (edit = "forbid" /\ \E r \in 1..Len(Forest) : Forest[r].name = S1[node].name /\ Visited(S1, Forest, r))
     => \E x \in Prof : x[1] = "limit" /\ x[3] = S1[node].name
=============================================================================
