-------------------------------- MODULE Mllp --------------------------------
(* The MLLP server of hl7apy (hl7apy/mllp.py) as a state machine: one handler thread per connection,     *)
(* a raw recv(3), then byte-wise reads through a buffered reader until end-block + CR, a regular          *)
(* expression check, routing on MSH-9 and one reply.  Clients send a byte script in arbitrary chunks and   *)
(* may close early or stall.  Bytes are abstract: SB, EB, CR, Pb (payload character), BADb (a byte that   *)
(* does not decode).                                                                                        *)
EXTENDS MllpFrame

CONSTANTS Conn,      \* connections
          Script,    \* [Conn -> Seq(bytes)]
          Kind,      \* [Conn -> {"reg","unreg","nonhl7"}]  what the payload is, if it is extracted
          ErrHandler \* BOOLEAN: an ERR handler is registered

VARIABLES wire, sent, cliClosed, stalled, pc, line, rbuf, calls, out, srvClosed
vars == <<wire, sent, cliClosed, stalled, pc, line, rbuf, calls, out, srvClosed>>

Take(s, n) == SubSeq(s, 1, n)
Drop(s, n) == SubSeq(s, n + 1, Len(s))
Min(a, b) == IF a < b THEN a ELSE b

Init == /\ wire = [c \in Conn |-> <<>>] /\ sent = [c \in Conn |-> 0]
        /\ cliClosed = [c \in Conn |-> FALSE] /\ stalled = [c \in Conn |-> FALSE]
        /\ pc = [c \in Conn |-> "recv3"] /\ line = [c \in Conn |-> <<>>] /\ rbuf = [c \in Conn |-> <<>>]
        /\ calls = <<>> /\ out = [c \in Conn |-> <<>>] /\ srvClosed = [c \in Conn |-> FALSE]

(* ---- client ---- *)
CliSend(c) == /\ ~cliClosed[c] /\ ~stalled[c] /\ sent[c] < Len(Script[c])
              /\ \E k \in 1..(Len(Script[c]) - sent[c]) :
                    /\ wire' = [wire EXCEPT ![c] = @ \o SubSeq(Script[c], sent[c] + 1, sent[c] + k)]
                    /\ sent' = [sent EXCEPT ![c] = @ + k]
              /\ UNCHANGED <<cliClosed, stalled, pc, line, rbuf, calls, out, srvClosed>>
CliClose(c) == /\ ~cliClosed[c] /\ cliClosed' = [cliClosed EXCEPT ![c] = TRUE]
               /\ UNCHANGED <<wire, sent, stalled, pc, line, rbuf, calls, out, srvClosed>>
CliStall(c) == /\ ~cliClosed[c] /\ ~stalled[c] /\ sent[c] < Len(Script[c])
               /\ stalled' = [stalled EXCEPT ![c] = TRUE]
               /\ UNCHANGED <<wire, sent, cliClosed, pc, line, rbuf, calls, out, srvClosed>>

(* ---- server: frame reader ---- *)
AfterFirst(l) == IF l = <<>> \/ l[1] # SBb THEN "close" ELSE IF EndSeq(l) THEN "extract" ELSE "loop"
SrvRecv3(c) == /\ pc[c] = "recv3"
               /\ \/ /\ wire[c] # <<>>
                     /\ LET n == Min(3, Len(wire[c])) IN
                        /\ line' = [line EXCEPT ![c] = Take(wire[c], n)]
                        /\ wire' = [wire EXCEPT ![c] = Drop(@, n)]
                        /\ pc' = [pc EXCEPT ![c] = AfterFirst(Take(wire[c], n))]
                  \/ /\ wire[c] = <<>> /\ cliClosed[c]          \* recv returns b"" at end of stream
                     /\ UNCHANGED <<line, wire>> /\ pc' = [pc EXCEPT ![c] = "close"]
               /\ UNCHANGED <<sent, cliClosed, stalled, rbuf, calls, out, srvClosed>>
SrvFill(c) == /\ pc[c] = "loop" /\ rbuf[c] = <<>> /\ wire[c] # <<>>   \* the buffered reader takes all that is there
              /\ rbuf' = [rbuf EXCEPT ![c] = wire[c]] /\ wire' = [wire EXCEPT ![c] = <<>>]
              /\ UNCHANGED <<sent, cliClosed, stalled, pc, line, calls, out, srvClosed>>
SrvByte(c) == /\ pc[c] = "loop" /\ rbuf[c] # <<>>
              /\ LET l == Append(line[c], Head(rbuf[c])) IN
                 /\ line' = [line EXCEPT ![c] = l] /\ rbuf' = [rbuf EXCEPT ![c] = Tail(@)]
                 /\ pc' = [pc EXCEPT ![c] = IF EndSeq(l) THEN "extract" ELSE "loop"]
              /\ UNCHANGED <<wire, sent, cliClosed, stalled, calls, out, srvClosed>>
SrvEof(c) == /\ pc[c] = "loop" /\ rbuf[c] = <<>> /\ wire[c] = <<>> /\ cliClosed[c]
             /\ pc' = [pc EXCEPT ![c] = "extract"]      \* read(1) = b"": break, the partial line goes to the check
             /\ UNCHANGED <<wire, sent, cliClosed, stalled, line, rbuf, calls, out, srvClosed>>
SrvTimeout(c) == /\ pc[c] \in {"recv3", "loop"} /\ rbuf[c] = <<>> /\ wire[c] = <<>> /\ stalled[c] /\ ~cliClosed[c]
                 /\ pc' = [pc EXCEPT ![c] = "close"]
                 /\ UNCHANGED <<wire, sent, cliClosed, stalled, line, rbuf, calls, out, srvClosed>>

(* ---- server: check, route, reply, close (frame predicates: MllpFrame) ---- *)
HandlerFor(c) == HandlerOf(Kind[c])
SrvExtract(c) == /\ pc[c] = "extract"
                 /\ pc' = [pc EXCEPT ![c] = IF Decodes(line[c]) /\ Matches(line[c]) THEN "route" ELSE "close"]
                 /\ UNCHANGED <<wire, sent, cliClosed, stalled, line, rbuf, calls, out, srvClosed>>
SrvRoute(c) == /\ pc[c] = "route"
               /\ IF Kind[c] = "reg" \/ ErrHandler
                  THEN /\ calls' = Append(calls, [conn |-> c, handler |-> HandlerFor(c), msg |-> Payload(line[c])])
                       /\ pc' = [pc EXCEPT ![c] = "reply"]
                  ELSE /\ calls' = calls /\ pc' = [pc EXCEPT ![c] = "close"]   \* no handler at all: just close
               /\ UNCHANGED <<wire, sent, cliClosed, stalled, line, rbuf, out, srvClosed>>
SrvReply(c) == /\ pc[c] = "reply"
               /\ out' = [out EXCEPT ![c] = <<"reply", c, HandlerFor(c)>>]
               /\ pc' = [pc EXCEPT ![c] = "close"]
               /\ UNCHANGED <<wire, sent, cliClosed, stalled, line, rbuf, calls, srvClosed>>
SrvClose(c) == /\ pc[c] = "close"
               /\ srvClosed' = [srvClosed EXCEPT ![c] = TRUE] /\ pc' = [pc EXCEPT ![c] = "done"]
               /\ UNCHANGED <<wire, sent, cliClosed, stalled, line, rbuf, calls, out>>

Srv(c) == SrvRecv3(c) \/ SrvFill(c) \/ SrvByte(c) \/ SrvEof(c) \/ SrvTimeout(c)
          \/ SrvExtract(c) \/ SrvRoute(c) \/ SrvReply(c) \/ SrvClose(c)
Next == \E c \in Conn : CliSend(c) \/ CliClose(c) \/ CliStall(c) \/ Srv(c)
Spec == Init /\ [][Next]_vars /\ \A c \in Conn : WF_vars(Srv(c))

(* ---- the property (C16), stated on what a client and the handlers can observe ---- *)
CallsOf(c) == SelectSeq(calls, LAMBDA r : r.conn = c)
ExpectedCalls(c, delivered) ==
  IF ExpHandler(Kind[c], ErrHandler, delivered) # "-"
  THEN <<[conn |-> c, handler |-> HandlerFor(c), msg |-> Payload(delivered)]>> ELSE <<>>
ExpectedOut(c, delivered) == IF ExpectedCalls(c, delivered) # <<>> THEN <<"reply", c, HandlerFor(c)>> ELSE <<>>

AtMostOneCall == \A c \in Conn : Len(CallsOf(c)) <= 1
\* when the handler thread is done, the observable outcome is a function of the bytes it consumed
Outcome == \A c \in Conn : pc[c] = "done" =>
              /\ CallsOf(c) = ExpectedCalls(c, line[c])
              /\ out[c] = ExpectedOut(c, line[c])
              /\ srvClosed[c]
\* a completely delivered frame is always served, whatever the chunking and the other connections do
FullFrameServed == \A c \in Conn :
   (pc[c] = "done" /\ sent[c] = Len(Script[c]) /\ WellFormedFrame(Script[c]) /\ line[c] = Script[c])
      => CallsOf(c) = ExpectedCalls(c, Script[c])
\* the line is always a prefix of what was sent: nothing is invented, reordered or taken from another connection
LineIsPrefix == \A c \in Conn : line[c] \o rbuf[c] \o wire[c] = Take(Script[c], sent[c])
NoCrossTalk == \A c \in Conn : out[c] # <<>> => out[c][2] = c
ReplyOnlyAfterCall == \A c \in Conn : out[c] # <<>> => Len(CallsOf(c)) = 1
\* every connection is eventually closed by the server, whatever the client does, once it stops acting
Quiescent(c) == cliClosed[c] \/ stalled[c] \/ sent[c] = Len(Script[c])
EventuallyClosed == \A c \in Conn : <>[](Quiescent(c)) => <>(srvClosed[c] \/ (~cliClosed[c] /\ ~stalled[c] /\ pc[c] \in {"recv3", "loop"}))
=============================================================================
