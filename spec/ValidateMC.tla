------------------------------ MODULE ValidateMC ------------------------------
(* Sanity of the verdict function on a small structure x all forests of bounded size: a forest built by    *)
(* the GroupFinder prescription from a conforming input has no structural error; removing a required        *)
(* segment yields exactly a "missing" error naming it; duplicating a non-repeatable one a "limit" error.     *)
EXTENDS Validate
LOCAL INSTANCE GroupFinder
N(n, k, mn, mx, p) == [name |-> n, kind |-> k, min |-> mn, max |-> mx, par |-> p]
S1 == <<N("A", "SEG", 1, 1, 0), N("G1", "GRP", 0, -1, 0), N("B", "SEG", 1, 1, 2), N("G2", "GRP", 0, -1, 2),
        N("C", "SEG", 1, 1, 4), N("D", "SEG", 0, -1, 4), N("E", "SEG", 0, 1, 0)>>
CONSTANTS MaxLen
VARIABLES input
Names == {"A", "B", "C", "D", "E"}
Init == input = <<>>
Next == Len(input) < MaxLen /\ \E n \in Names : input' = Append(input, n)
Spec == Init /\ [][Next]_input
WithZ(rows) == [i \in 1..Len(rows) |-> [name |-> rows[i].name, kind |-> rows[i].kind, par |-> rows[i].par, z |-> FALSE]]
Errs == StructErrors(S1, WithZ(Prescribed(S1, input)), "M")
\* the prescription never produces an undeclared child; errors are cardinality errors only
OnlyCardinality == \A x \in Errs : x[1] \in {"missing", "limit"}
\* A missing at the root is reported iff the input has no A
MissingA == (<<"missing", "M", "A">> \in Errs) <=> (\A k \in 1..Len(input) : input[k] # "A")
LimitE == (<<"limit", "M", "E">> \in Errs) <=> (Cardinality({k \in 1..Len(input) : input[k] = "E"}) > 1)
=============================================================================
