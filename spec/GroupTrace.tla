----------------------------- MODULE GroupTrace -----------------------------
(* Judges parsed messages against GroupFinder (C08) and the no-loss law (C03).                             *)
(* e = [struct : Seq(<<name, kind, min, max, par>>), input : Seq(name), tree : Seq(<<name, kind, par>>),     *)
(*      lines_in, lines_fg, lines_nofg : Seq(Text), out_fg, out_nofg : outcome, valid, conforming, ec]        *)
EXTENDS GroupFinder, Json, IOUtils
INSTANCE Er7
V == INSTANCE Validate
Events == ndJsonDeserialize(IOEnv.EVENTS)
VARIABLES l, nontriv, failed
vars == <<l, nontriv, failed>>

S(e) == [i \in 1..Len(e.struct) |-> [name |-> e.struct[i][1], kind |-> e.struct[i][2], min |-> e.struct[i][3],
                                      max |-> e.struct[i][4], par |-> e.struct[i][5]]]
Rows(e) == [i \in 1..Len(e.tree) |-> [name |-> e.tree[i][1], kind |-> e.tree[i][2], par |-> e.tree[i][3]]]
Ec(e) == [F |-> e.ec[1], C |-> e.ec[2], S |-> e.ec[3], R |-> e.ec[4], E |-> e.ec[5], T |-> e.ec[6]]

\* C03: same segments in the same order, same non-empty leaves in the same order; a failure to place is an exception
SameContent(e, a, b) ==
  /\ Len(a) = Len(b)
  /\ \A i \in 1..Len(a) : \/ a[i] = b[i]        \* (identical text: nothing to parse)
                          \/ LET x == ParseSeg(a[i], Ec(e)) y == ParseSeg(b[i], Ec(e)) IN
                               x.name = y.name /\ LeafSeq(x) = LeafSeq(y)
\* index of the first line whose name or leaf sequence differs (0: none; Len+1: a different number of lines)
FirstBadLine(e, a, b) ==
  IF Len(a) # Len(b) THEN Len(a) + 1
  ELSE LET bad == {i \in 1..Len(a) : a[i] # b[i] /\ LET x == ParseSeg(a[i], Ec(e)) y == ParseSeg(b[i], Ec(e)) IN
                                                       x.name # y.name \/ LeafSeq(x) # LeafSeq(y)} IN
       IF bad = {} THEN 0 ELSE CHOOSE i \in bad : \A j \in bad : i <= j
LossVerdict(e) ==
  IF e.out_nofg = "ok" /\ ~SameContent(e, e.lines_in, e.lines_nofg) THEN "content_lost_or_reordered_without_group_finding"
  ELSE IF e.out_fg = "ok" /\ ~SameContent(e, e.lines_in, e.lines_fg) THEN "content_lost_or_reordered_with_group_finding"
  ELSE "ok"
LossLine(e) == IF e.out_nofg = "ok" /\ ~SameContent(e, e.lines_in, e.lines_nofg) THEN FirstBadLine(e, e.lines_in, e.lines_nofg)
               ELSE IF e.out_fg = "ok" THEN FirstBadLine(e, e.lines_in, e.lines_fg) ELSE 0

LineCount(sq, x) == Cardinality({i \in 1..Len(sq) : sq[i] = x})
BagEq(a, b) == Len(a) = Len(b) /\ \A i \in 1..Len(a) : LineCount(a, a[i]) = LineCount(b, a[i])
\* C08
GroupVerdict(e) ==
  LET s == S(e) rows == Rows(e) IN
  IF e.out_fg # "ok" THEN (IF e.conforming THEN "conforming_instance_rejected" ELSE "ok")
  ELSE IF ~Declared(s, e.input) THEN "ok"          \* segments outside the structure: C03's subject
  ELSE IF Flatten(rows) # e.input THEN "flattening_differs_from_input"
  ELSE IF ~Sound(s, rows) THEN "element_is_not_a_declared_child_of_its_parent"
  ELSE IF e.out_nofg = "ok" /\ e.lines_fg # e.lines_nofg THEN "encoding_differs_with_and_without_group_finding"
  \* the same text assigned to a message created without a name (Message().value = text) is grouped alike
  ELSE IF "tree_val" \in DOMAIN e /\ e.out_val = "ok" /\ e.tree_val # e.tree THEN "grouping_differs_when_the_text_is_assigned_to_an_empty_message"
  \* ... and parsed under STRICT (when STRICT accepts it) it gives the same tree and the same encoding
  ELSE IF "tree_strict" \in DOMAIN e /\ e.out_strict = "ok" /\ Unambiguous(s, e.input) /\ e.tree_strict # e.tree
       THEN "grouping_differs_under_strict"
  \* (the ORDER of the lines may differ: STRICT encodes a group's members in structure order - recorded finding
  \*  C05-strict-structure-order; every line is there exactly as often as in the input)
  ELSE IF "tree_strict" \in DOMAIN e /\ e.out_strict = "ok" /\ ~BagEq(e.lines_strict, e.lines_fg)
       THEN "strict_tree_encodes_other_segments_than_the_input"
  ELSE IF Unambiguous(s, e.input) /\ rows # Prescribed(s, e.input) THEN "tree_is_not_the_prescribed_one"
  \* when the prescribed forest satisfies every cardinality of the structure, the validator must find no structural error
  ELSE IF Unambiguous(s, e.input) /\ ~e.valid
          /\ V!StructErrors(s, [i \in 1..Len(rows) |-> [name |-> rows[i].name, kind |-> rows[i].kind, par |-> rows[i].par, z |-> FALSE]], e.msgname) = {}
       THEN "conforming_instance_does_not_validate"
  ELSE "ok"
Verdict(e) == IF e.want = "C03" THEN LossVerdict(e) ELSE GroupVerdict(e)
Premise(e) == IF e.want = "C03" THEN TRUE ELSE Declared(S(e), e.input)
Init == l = 1 /\ nontriv = 0 /\ failed = 0
Next == /\ l <= Len(Events)
        /\ LET e == Events[l]
               v == Verdict(e)
               pm == Premise(e)
           IN /\ IF pm THEN TRUE ELSE PrintT(<<"T", e.id>>)
              /\ IF v = "ok" THEN TRUE ELSE PrintT(<<"V", e.id, v, IF e.want = "C03" THEN LossLine(e) ELSE 0>>)
              /\ nontriv' = nontriv + (IF pm THEN 1 ELSE 0)
              /\ failed' = failed + (IF v = "ok" THEN 0 ELSE 1)
        /\ l' = l + 1
Spec == Init /\ [][Next]_vars
Done == l = Len(Events) + 1 => PrintT(<<"S", Len(Events), nontriv, failed>>)
AllJudged == TLCGet("stats").diameter = Len(Events) + 1
=============================================================================
