CONSTANTS
 Parents = {1, 2}
 Obj = {1, 2, 3}
 Names = {"A", "B"}
 MaxRep <- MaxRepQ
 Strict = FALSE
 Vals <- Vals2
 MaxKids = 2
 MaxHeld = 1
SPECIFICATION Spec
VIEW View
CHECK_DEADLOCK FALSE
INVARIANT C10Consistent
INVARIANT TypeOK
PROPERTY C12Atomic
PROPERTY C09OrderKept
PROPERTY C09Locality
