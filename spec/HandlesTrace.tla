---------------------------- MODULE HandlesTrace ----------------------------
(* Judges what real elements did along a history of Handles (C05): at every step, at both levels, the outcome     *)
(* (accepted / refused for cardinality) and the number of children listed under each name are the reference's.   *)
(* e = [id, hist : Seq(op), s : Seq([out, cnt : [A, B]]), t : Seq(...)]  (s: STRICT copy, t: TOLERANT copy; a copy  *)
(* stops at its first refusal)                                                                                   *)
EXTENDS Handles, Json, IOUtils
Events == ndJsonDeserialize(IOEnv.EVENTS)
VARIABLES l, nontriv, failed
vars == <<l, nontriv, failed>>
GInQ == [n \in Names |-> n # "A"]
MaxQ == [n \in Names |-> IF n = "A" THEN 1 ELSE 0]

RECURSIVE Walk(_, _, _, _, _)
(* -> <<index of the first deviating step, clause>> or <<0, "ok">> *)
Walk(strict, st, hist, obs, i) ==
  IF i > Len(hist) \/ i > Len(obs) THEN <<0, "ok">>
  ELSE LET r == Step(strict, st, hist[i])
           o == obs[i] IN
       IF ~Enabled(st, hist[i]) THEN <<0, "ok">>           \* not a history of the model: nothing claimed
       ELSE IF r.out = "rej" /\ o.out = "ok" THEN <<i, "accepted_where_the_reference_refuses">>
       ELSE IF r.out = "ok" /\ o.out = "rej" THEN <<i, "refused_where_the_reference_accepts">>
       ELSE IF o.out \notin {"ok", "rej"} THEN <<i, "raised">>
       ELSE IF \E n \in Names : o.cnt[n] # Len(r.st.lst[n]) THEN <<i, "listed_children_differ_from_the_reference">>
       ELSE IF r.out = "rej" THEN <<0, "ok">>
       ELSE Walk(strict, r.st, hist, obs, i + 1)

Verdict(e) ==
  LET a == Walk(TRUE, Init0, e.hist, e.s, 1)
      b == Walk(FALSE, Init0, e.hist, e.t, 1) IN
  IF a[1] # 0 THEN <<"strict:" \o a[2], a[1]>>
  ELSE IF b[1] # 0 THEN <<"tolerant:" \o b[2], b[1]>> ELSE <<"ok", 0>>

Init == l = 1 /\ nontriv = 0 /\ failed = 0
Next == /\ l <= Len(Events)
        /\ LET e == Events[l]
               v == Verdict(e)
           IN /\ IF v[1] = "ok" THEN TRUE ELSE PrintT(<<"V", e.id, v[1], v[2]>>)
              /\ nontriv' = nontriv + 1
              /\ failed' = failed + (IF v[1] = "ok" THEN 0 ELSE 1)
        /\ l' = l + 1
Spec == Init /\ [][Next]_vars
Done == l = Len(Events) + 1 => PrintT(<<"S", Len(Events), nontriv, failed>>)
AllJudged == TLCGet("stats").diameter = Len(Events) + 1
=============================================================================
