CONSTANTS
 t1 = t1
 t2 = t2
 t3 = t3
 Thread = {t1, t2, t3}
 Version = {"2.5", "2.7"}
 Job <- Job3
 Copy = FALSE
SPECIFICATION Spec
INVARIANT SharedUntouched
INVARIANT SameAsAlone

CHECK_DEADLOCK FALSE
