CONSTANTS
 MaxFields = 2
 MaxReps = 2
 MaxComps = 2
 MaxSubs = 2
 MaxLeaves = 3
 WithMSH = TRUE
 MaxDepth = 6
SPECIFICATION Spec
CHECK_DEADLOCK FALSE
CONSTRAINT Bound
INVARIANT RoundTrip
INVARIANT TrimCanonical
INVARIANT CanonicalFixpoint
INVARIANT TrimKeepsLeaves
INVARIANT PositionLaw
INVARIANT Closure
