----------------------------- MODULE ProfileTrace -----------------------------
(* Judges what elements created under a message profile look like (C18): the child reached by each creation   *)
(* path carries the profile's datatype and obeys the profile's cardinality; a restated profile changes no        *)
(* result; missing / legacy profiles raise the documented exceptions.                                            *)
EXTENDS Integers, Sequences, TLC, Json, IOUtils
Events == ndJsonDeserialize(IOEnv.EVENTS)
VARIABLES l, nontriv, failed
vars == <<l, nontriv, failed>>
Min2(a, b) == IF a < b THEN a ELSE b
Max2(a, b) == IF a > b THEN a ELSE b
(* pre = children already present when probing starts (parsing is not refused by cardinality); tried = pre + 3 *)
Verdict(e) ==
  CASE e.k = "create" ->
         IF e.outcome # "ok" THEN "creation_path_raised"
         ELSE IF e.dt_got # e.dt_want THEN "child_has_the_standard_datatype_not_the_profile_one"
         ELSE IF e.max_want # -1 /\ e.accepted # Min2(Max2(e.max_want, e.pre), e.tried) THEN "profile_cardinality_not_enforced_under_strict"
         ELSE IF e.max_want = -1 /\ e.accepted < e.tried THEN "profile_allows_repetition_but_strict_refused"
         ELSE "ok"
    \* a component whose datatype the profile replaces by another complex one: <field>_<j>_<k> designates the k-th part
    \* of the PROFILE's datatype
    [] e.k = "pos" -> IF e.got # e.want THEN "positional_path_does_not_follow_the_profile_datatype" ELSE "ok"
    \* a complex component of a message PARSED with the profile (both levels), filled in and validated on its own:
    \* subs = <<name, min, max, count, profile datatype, datatype found>>
    [] e.k = "below" ->
         LET want == {<<"missing", e.subs[i][1]>> : i \in {j \in 1..Len(e.subs) : e.subs[j][4] < e.subs[j][2]}}
                     \cup {<<"limit", e.subs[i][1]>> : i \in {j \in 1..Len(e.subs) : e.subs[j][3] # -1 /\ e.subs[j][4] > e.subs[j][3]}}
             got == {<<e.errors[i][1], e.errors[i][2]>> : i \in 1..Len(e.errors)}
         IN IF e.outcome # "ok" THEN "creation_path_raised"
            ELSE IF \E i \in 1..Len(e.subs) : e.subs[i][5] # "" /\ e.subs[i][5] # e.subs[i][6]
                 THEN "child_has_the_standard_datatype_not_the_profile_one"
            ELSE IF got # want THEN "validate_of_a_parsed_part_does_not_follow_the_profile"
            ELSE "ok"
    [] e.k = "same" -> IF e.with # e.without THEN "restated_profile_changes_behaviour" ELSE "ok"
    [] e.k = "exc" -> IF e.got # e.want THEN "wrong_exception_for_unusable_profile" ELSE "ok"
Init == l = 1 /\ nontriv = 0 /\ failed = 0
Next == /\ l <= Len(Events)
        /\ LET e == Events[l]
               v == Verdict(e)
           IN /\ IF v = "ok" THEN TRUE ELSE PrintT(<<"V", e.id, v>>)
              /\ nontriv' = nontriv + 1
              /\ failed' = failed + (IF v = "ok" THEN 0 ELSE 1)
        /\ l' = l + 1
Spec == Init /\ [][Next]_vars
Done == l = Len(Events) + 1 => PrintT(<<"S", Len(Events), nontriv, failed>>)
AllJudged == TLCGet("stats").diameter = Len(Events) + 1
=============================================================================
