---------------------------- MODULE DefaultsTrace ----------------------------
(* Judges recorded explicit calls and observations made under changed defaults (C17).                      *)
EXTENDS Naturals, Sequences, TLC, Json, IOUtils
Events == ndJsonDeserialize(IOEnv.EVENTS)
VARIABLES l, nontriv, failed
vars == <<l, nontriv, failed>>
Pristine(e) == e.dv = e.dv0 /\ e.dl = e.dl0 /\ e.dec = e.dec0
Verdict(e) ==
  IF e.k = "call" THEN (IF e.result # e.baseline THEN "explicit_call_depends_on_defaults" ELSE "ok")
  ELSE IF e.now # e.recorded THEN "existing_element_changed_with_defaults" ELSE "ok"
Init == l = 1 /\ nontriv = 0 /\ failed = 0
Next == /\ l <= Len(Events)
        /\ LET e == Events[l]
               v == Verdict(e)
               pm == ~Pristine(e)
           IN /\ IF pm THEN TRUE ELSE PrintT(<<"T", e.id>>)
              /\ IF v = "ok" THEN TRUE ELSE PrintT(<<"V", e.id, v>>)
              /\ nontriv' = nontriv + (IF pm THEN 1 ELSE 0)
              /\ failed' = failed + (IF v = "ok" THEN 0 ELSE 1)
        /\ l' = l + 1
Spec == Init /\ [][Next]_vars
Done == l = Len(Events) + 1 => PrintT(<<"S", Len(Events), nontriv, failed>>)
AllJudged == TLCGet("stats").diameter = Len(Events) + 1
=============================================================================
