-------------------------- MODULE ElementTreeTrace --------------------------
(* Judges recorded steps of real hl7apy elements against the reference container ElementTree.           *)
(* An event is one public call: the projected state before, the operation, the outcome class and the    *)
(* projected state after, plus what the other public views showed afterwards.  Verdicts are total.      *)
EXTENDS ElementTree, Json, IOUtils

Events == ndJsonDeserialize(IOEnv.EVENTS)

MaxRepT == [n \in Names |-> IF n = "A" THEN 1 ELSE 0]

VARIABLES l, nontriv, failed
vars == <<l, nontriv, failed>>

JoinWith(parts, sep) ==
  LET RECURSIVE go(_, _)
      go(i, acc) == IF i > Len(parts) THEN acc
                    ELSE go(i + 1, IF i = 1 THEN parts[1] ELSE (acc \o sep) \o parts[i])
  IN go(1, <<>>)

(* ---- abstraction of a projected implementation state ---- *)
Row(s, o) == IF \E i \in 1..Len(s.objs) : s.objs[i][1] = o
             THEN s.objs[CHOOSE i \in 1..Len(s.objs) : s.objs[i][1] = o] ELSE <<o, NoName, <<>>, 1>>
Abs(s) == [kids |-> [p \in Parents |-> s.kids[p]],
           nm   |-> [o \in Obj |-> Row(s, o)[2]],
           val  |-> [o \in Obj |-> Row(s, o)[3]],
           lv   |-> [o \in Obj |-> Row(s, o)[4]],
           held |-> Range(s.held)]

(* ---- the step itself: C09 (state), C12 (atomic rejection), C05 (acceptance) ---- *)
StepVerdict(e, pre, post) ==
  LET S == Succ(pre, e.op)
      okS == {r \in S : r.out = "ok"}
      rejS == {r \in S : r.out = "rej"}
  IN IF e.outcome = "ok"
     THEN IF \E r \in okS : r.st = post THEN "ok"
          ELSE IF okS = {} THEN "accepted_but_must_reject" ELSE "wrong_state"
     ELSE IF post # pre \/ e.obs.enc # e.preobs.enc \/ e.obs.views # e.preobs.views THEN "rejected_not_atomic"
          ELSE IF rejS = {} THEN "rejected_but_must_succeed" ELSE "ok"

(* ---- the other public views of the state after the call: C10 ---- *)
ViewsVerdict(e, post) ==
  IF ~NoDuplicates(post) THEN "child_listed_twice"
  ELSE IF ~NoSharing(post) THEN "child_listed_by_two_parents"
  ELSE IF \E p \in Parents : e.obs.iter[p] # e.post.kids[p] \/ e.obs.lens[p] # Len(e.post.kids[p]) THEN "iter_len_disagree"
  ELSE IF \E p \in Parents : \E i \in 1..Len(e.obs.names) :
             e.obs.views[p][i] # Reps(post, p, e.obs.names[i]) THEN "byname_view_disagrees"
  ELSE IF \E p \in Parents : \E i \in 1..Len(e.obs.names) :
             e.obs.vlens[p][i] # Len(Reps(post, p, e.obs.names[i])) THEN "byname_len_disagrees"
  ELSE IF "contains" \in DOMAIN e.obs /\ \E i \in 1..Len(e.obs.contains) : ~e.obs.contains[i][1] \/ ~e.obs.contains[i][2]
       THEN "listed_child_not_contained"
  ELSE IF "stale" \in DOMAIN e.obs /\ \E i \in 1..Len(e.obs.stale) : e.obs.stale[i][1] \/ e.obs.stale[i][2]
       THEN "removed_child_still_contained"
  ELSE IF \E i \in 1..Len(e.obs.par) : e.obs.par[i][2] # ParentOf(post, e.obs.par[i][1]) THEN "parent_pointer"
  ELSE IF \E i \in 1..Len(e.obs.lvl) : ~e.obs.lvl[i][2] THEN "mixed_level_or_version"
  ELSE "ok"

(* ---- the encoding is the one the ordered-list model prescribes: C09 ---- *)
Vals(st, p, n) == LET r == Reps(st, p, n) IN [i \in 1..Len(r) |-> st.val[r[i]]]
SlotOf(lay, k) == IF \E i \in 1..Len(lay.slots) : lay.slots[i][2] = k
                  THEN lay.slots[CHOOSE i \in 1..Len(lay.slots) : lay.slots[i][2] = k][1] ELSE NoName
\* trailing ABSENT slots are dropped; a present child keeps its slot even when its value is empty
TrimAbsent(present, texts) ==
  LET RECURSIVE go(_)
      go(n) == IF n >= 1 /\ ~present[n] THEN go(n - 1) ELSE SubSeq(texts, 1, n)
  IN go(Len(texts))
CName(lay, n) == lay.cname[CHOOSE i \in 1..Len(lay.cname) : lay.cname[i][1] = n][2]
EncRef(e, st, p) ==
  LET lay == e.lay IN
  IF lay.kind = "list"       \* insertion order, one item per child: NAME or NAME|value
  THEN JoinWith([i \in 1..Len(st.kids[p]) |->
                   LET o == st.kids[p][i] IN
                   CName(lay, st.nm[o]) \o (IF st.val[o] = <<>> THEN <<>> ELSE <<124>> \o st.val[o])], <<lay.sep>>)
  ELSE IF lay.kind = "slots" \* structure order by slot number, repetitions joined, blanks kept for absent slots
  THEN LET pres == [k \in 1..lay.n |-> SlotOf(lay, k) # NoName /\ Reps(st, p, SlotOf(lay, k)) # <<>>]
           txt == [k \in 1..lay.n |-> IF pres[k] THEN JoinWith(Vals(st, p, SlotOf(lay, k)), <<lay.rep>>) ELSE <<>>]
       IN JoinWith(<<lay.prefix>> \o TrimAbsent(pres, txt), <<lay.sep>>)
  ELSE \* "ranked": structure order, every repetition its own item, absent names skipped
       LET RECURSIVE cat(_, _)
           cat(k, acc) == IF k > Len(lay.slots) THEN acc
                          ELSE cat(k + 1, acc \o [i \in 1..Len(Reps(st, p, lay.slots[k][1])) |->
                                   LET o == Reps(st, p, lay.slots[k][1])[i] IN
                                   CName(lay, st.nm[o]) \o (IF st.val[o] = <<>> THEN <<>> ELSE <<124>> \o st.val[o])])
       IN JoinWith(cat(1, <<>>), <<lay.sep>>)
EncVerdict(e, post) ==
  IF \E p \in Parents : e.obs.enc[p] # EncRef(e, post, p) THEN "encoding_differs_from_list_model" ELSE "ok"

(* ---- reads: C11 ---- *)
ReadVerdict(e) ==
  IF e.op.op # "Read" THEN "ok"
  ELSE IF e.outcome # "ok" THEN "read_raised"
  ELSE IF e.post # e.pre THEN "read_changed_children"
  ELSE IF e.obs.enc # e.preobs.enc THEN "read_changed_encoding"
  ELSE IF "valid" \in DOMAIN e.obs /\ e.obs.valid # e.preobs.valid THEN "read_changed_validation"
  ELSE "ok"

\* the step (C09 / C12 / C05) and the views (C10) are judged independently: "a+b" when both fail
Verdict(e, pre) ==
  LET post == Abs(e.post)
      a == StepVerdict(e, pre, post)
      b == ViewsVerdict(e, post) IN
  IF a # "ok" /\ b # "ok" THEN a \o "+" \o b
  ELSE IF a # "ok" THEN a ELSE IF b # "ok" THEN b ELSE
  LET c == EncVerdict(e, post) IN IF c # "ok" THEN c ELSE ReadVerdict(e)

\* a step is judged only from a pre-state that is itself consistent (the step that broke it was reported)
Premise(pre) == NoSharing(pre) /\ NoDuplicates(pre) /\ HeldDetached(pre)
\* and the operation must be applicable there (a scripted walk may name an object the implementation no longer holds)
Applicable(e, pre) == Succ(pre, e.op) # {}

Init == l = 1 /\ nontriv = 0 /\ failed = 0
Next == /\ l <= Len(Events)
        /\ LET e == Events[l]
               pre == Abs(e.pre)
               pm == Premise(pre) /\ Applicable(e, pre)
               v == IF pm THEN Verdict(e, pre) ELSE "ok"
           IN /\ IF pm THEN TRUE ELSE PrintT(<<"T", e.id>>)
              /\ IF v = "ok" THEN TRUE ELSE PrintT(<<"V", e.id, v>>)
              /\ nontriv' = nontriv + (IF pm THEN 1 ELSE 0)
              /\ failed' = failed + (IF v = "ok" THEN 0 ELSE 1)
        /\ l' = l + 1
Spec == Init /\ [][Next]_vars
Done == l = Len(Events) + 1 => PrintT(<<"S", Len(Events), nontriv, failed>>)
AllJudged == TLCGet("stats").diameter = Len(Events) + 1
=============================================================================
