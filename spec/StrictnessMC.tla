---------------------------- MODULE StrictnessMC ----------------------------
(* C05 on the reference container: whatever a STRICT parent accepts, a TOLERANT parent accepts with the    *)
(* same result; and a STRICT-reachable state never exceeds a cardinality nor holds a foreign or other-level   *)
(* child.  Two instances of ElementTree (Strict = TRUE / FALSE) are stepped over the STRICT graph.             *)
EXTENDS Naturals, Sequences, FiniteSets, TLC
CONSTANTS Parents, Obj, Names, MaxKids, MaxHeld
MaxRepQ == [n \in Names |-> IF n = "A" THEN 1 ELSE 0]
S == INSTANCE ElementTree WITH MaxRep <- MaxRepQ, Strict <- TRUE
T == INSTANCE ElementTree WITH MaxRep <- MaxRepQ, Strict <- FALSE
Vals == {<<49>>}
VARIABLE st
Ops == [op : {"SetName", "SetDeep"}, p : Parents, n : Names, v : Vals]
       \cup [op : {"SetIdx"}, p : Parents, n : Names, i : 0..MaxKids, v : Vals]
       \cup [op : {"SetObj"}, p : Parents, n : Names, c : Obj]
       \cup [op : {"SetAt"}, p : Parents, i : 1..MaxKids, v : Vals]
       \cup [op : {"SetAtObj"}, p : Parents, i : 1..MaxKids, c : Obj]
       \cup [op : {"AddNew", "DelName"}, p : Parents, n : Names]
       \cup [op : {"AddObj", "Reparent", "Remove"}, p : Parents, c : Obj]
       \cup [op : {"Insert"}, p : Parents, i : 1..(MaxKids + 1), c : Obj]
       \cup [op : {"Pop", "DelAt"}, p : Parents, i : 1..MaxKids]
       \cup [op : {"DelIdx"}, p : Parents, n : Names, i : 0..MaxKids]
       \cup [op : {"CopyFrom"}, p : Parents, n : Names, q : Parents]
       \cup [op : {"Adopt"}, p : Parents, q : Parents]
       \cup [op : {"NewFree"}, n : Names \cup {S!Foreign}, v : Vals, l : {0, 1}]
       \cup [op : {"Forget"}, c : Obj]
Small(s) == (\A p \in Parents : Len(s.kids[p]) <= MaxKids) /\ Cardinality(s.held) <= MaxHeld
Init == st = S!EmptyState
Next == \E o \in Ops : \E r \in S!Succ(st, o) : Small(r.st) /\ st' = r.st
Spec == Init /\ [][Next]_st
OkStates(R) == {r.st : r \in {x \in R : x.out = "ok"}}
StrictSubsetOfTolerant == \A o \in Ops : OkStates(S!Succ(st, o)) \subseteq OkStates(T!Succ(st, o))
StrictStatesAreClean == S!Consistent(st)
=============================================================================
