------------------------------ MODULE EscapeMC ------------------------------
(* All strings up to MaxLen over an alphabet holding every delimiter, the escape character, an escape     *)
(* letter that is also a sequence head (S), one that is not a delimiter's letter (H), X and a hex digit    *)
(* (multi-character sequences) and an ordinary letter.                                                      *)
EXTENDS Escape
CONSTANTS MaxLen, Fam, UseOld
ecM == [F |-> 124, C |-> 94, S |-> 38, R |-> 126, E |-> 92, T |-> IF Fam = 27 THEN 35 ELSE 0]
Sym == {124, 94, 38, 126, 92, 83, 72, 88, 48, 113} \cup (IF Fam = 27 THEN {35, 76} ELSE {})
VARIABLE s
Init == s = <<>>
Next == Len(s) < MaxLen /\ \E c \in Sym : s' = Append(s, c)
Spec == Init /\ [][Next]_s
Enc(t) == IF UseOld THEN EscapeOld(t, ecM, Fam) ELSE EscapeRef(t, ecM, Fam)
PropertyHolds == Allowed(s, Enc(s), ecM, Fam)
Idempotent == Enc(Enc(s)) = Enc(s)
FixpointIsStable == (Enc(s) = s) <=> Stable(s, ecM, Fam)
=============================================================================
