------------------------------ MODULE HeaderMC ------------------------------
(* (1) every abstract header shape through the transcription: no "Crash" (with Guarded = FALSE TLC must    *)
(*     find the five-separator header with fewer than twelve fields: negative control);                    *)
(* (2) a generator of mutation plans applied by the harness to seed messages.                               *)
EXTENDS Header
CONSTANTS Guarded, MaxDepth, PlansOnly
Seps == {<<>>, <<94>>, <<94, 126, 92>>, <<94, 126, 92, 38>>, <<94, 126, 92, 38, 35>>, <<94, 126, 92, 38, 35, 36>>,
         <<94, 94, 92, 38>>, <<94, 126, 92, 38, 38>>}
Versions == {<<>>, <<50, 46, 53>>, <<50, 46, 55>>, <<50, 46, 56, 46, 50>>, <<57>>, <<50>>}
Prefixes == {<<77, 83, 72, 124>>, <<77, 83, 72, 32>>, <<77, 83, 72>>, <<77, 83>>, <<80, 73, 68, 124>>, <<77, 83, 72, 94>>}
Ops == {"truncate", "delete_delim", "dup_delim", "set_seps", "drop_fields", "set_version", "garble_name", "blank_line",
        "junk", "swap_lines", "strip_msh9", "lowercase", "add_fields"}
Args == 0..5
VARIABLES hdr, plan
vars == <<hdr, plan>>
\* a header text: prefix, separators, n empty fields, and a version in the twelfth field when there are that many
Build(p, s, n, v) ==
  LET f == IF Len(p) >= 4 THEN p[4] ELSE 124
      RECURSIVE tail(_, _)
      tail(k, acc) == IF k > n THEN acc ELSE tail(k + 1, (acc \o <<f>>) \o (IF k + 2 = 12 THEN v ELSE <<>>))
  IN tail(1, p \o s)
Init == /\ IF PlansOnly THEN hdr = Build(<<77, 83, 72, 124>>, <<94, 126, 92, 38>>, 11, <<50, 46, 53>>)
           ELSE \E p \in Prefixes, s \in Seps, n \in 0..12, v \in Versions : hdr = Build(p, s, n, v)
        /\ plan = <<>>
Next == /\ Len(plan) < MaxDepth
        /\ \E o \in Ops, a \in Args : plan' = Append(plan, <<o, a>>)
        /\ UNCHANGED hdr
Spec == Init /\ [][Next]_vars
NoCrash == SplitMsh(hdr, Guarded) # "Crash"
Total == SplitMsh(hdr, Guarded) \in {"ok", "ParserError", "InvalidEncodingChars", "Crash"}
=============================================================================
