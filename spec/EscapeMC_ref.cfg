CONSTANTS
 MaxLen = 5
 Fam = 27
 UseOld = FALSE
SPECIFICATION Spec
CHECK_DEADLOCK FALSE
INVARIANT PropertyHolds
INVARIANT Idempotent
INVARIANT FixpointIsStable
