----------------------------- MODULE GroupFinder -----------------------------
(* C08 / C03: what group finding must produce.  A message structure is a sequence S of nodes            *)
(* [name, kind ("SEG" | "GRP"), min, max, par] where par is the index of the enclosing group node (0: the  *)
(* message itself).  A parsed message is a forest given as rows [name, kind, par] in document order (par:   *)
(* index of the parent row, 0: the message).                                                                  *)
EXTENDS Integers, Sequences, FiniteSets, TLC

SegNodes(S, n) == {i \in 1..Len(S) : S[i].kind = "SEG" /\ S[i].name = n}
GrpNodes(S, n) == {i \in 1..Len(S) : S[i].kind = "GRP" /\ S[i].name = n}
\* chain of enclosing groups of node i, outermost first
Chain(S, i) == LET RECURSIVE up(_, _)
                   up(k, acc) == IF S[k].par = 0 THEN acc ELSE up(S[k].par, <<S[k].par>> \o acc)
               IN up(i, <<>>)
Declared(S, input) == \A k \in 1..Len(input) : SegNodes(S, input[k]) # {}
Unambiguous(S, input) == \A k \in 1..Len(input) : Cardinality(SegNodes(S, input[k])) = 1
NodeOf(S, n) == CHOOSE i \in SegNodes(S, n) : TRUE

(* ---- soundness of an observed forest: every row is a declared child of its parent ---- *)
RowNode(S, rows, r) ==  \* the structure node a group row stands for (group names are unique in a structure); 0 if none
  IF GrpNodes(S, rows[r].name) = {} THEN 0 ELSE CHOOSE i \in GrpNodes(S, rows[r].name) : TRUE
Sound(S, rows) ==
  \A r \in 1..Len(rows) :
     LET pn == IF rows[r].par = 0 THEN 0 ELSE RowNode(S, rows, rows[r].par) IN
     /\ rows[r].par < r
     /\ (rows[r].par # 0 => rows[rows[r].par].kind = "GRP")
     /\ \E i \in 1..Len(S) : S[i].par = pn /\ S[i].name = rows[r].name /\ S[i].kind = rows[r].kind
Flatten(rows) == LET s == SelectSeq(rows, LAMBDA x : x.kind = "SEG") IN [i \in 1..Len(s) |-> s[i].name]
NoEmptyGroup(rows) == \A r \in 1..Len(rows) : rows[r].kind = "GRP" => \E q \in (r + 1)..Len(rows) : rows[q].par = r

(* ---- the prescribed forest for an input whose segment names each occur at one place of the structure ---- *)
CommonPrefix(a, b) == LET RECURSIVE go(_)
                          go(k) == IF k < Len(a) /\ k < Len(b) /\ a[k + 1] = b[k + 1] THEN go(k + 1) ELSE k
                      IN go(0)
Step(S, st, n) ==
  LET node == NodeOf(S, n)
      P == Chain(S, node)
      onodes == [x \in 1..Len(st.open) |-> st.open[x].node]
      j == CommonPrefix(onodes, P)
      k == Len(P)
      recurs == /\ j = k /\ k > 0 /\ S[node].max = 1
                /\ \E r \in 1..Len(st.rows) : st.rows[r].par = st.open[k].row /\ st.rows[r].name = n /\ st.rows[r].kind = "SEG"
      \* open the groups P[from..k] below parent row `under`
      RECURSIVE openFrom(_, _, _, _)
      openFrom(rows, open, from, under) ==
        IF from > k THEN [rows |-> rows, open |-> open]
        ELSE LET rws == Append(rows, [name |-> S[P[from]].name, kind |-> "GRP", par |-> under]) IN
             openFrom(rws, Append(open, [node |-> P[from], row |-> Len(rws)]), from + 1, Len(rws))
      \* the repetition is opened at the innermost enclosing group that may repeat: a non-repeatable group whose
      \* member recurs is itself a recurring non-repeatable member of its own parent
      rep == {x \in 1..k : S[P[x]].max # 1}
      m == IF rep = {} THEN k ELSE CHOOSE x \in rep : \A y \in rep : y <= x
      base == IF recurs
              THEN openFrom(st.rows, SubSeq(st.open, 1, m - 1), m, st.rows[st.open[m].row].par)   \* a sibling repetition
              ELSE openFrom(st.rows, SubSeq(st.open, 1, j), j + 1, IF j = 0 THEN 0 ELSE st.open[j].row)
      under == IF base.open = <<>> THEN 0 ELSE base.open[Len(base.open)].row
  IN [rows |-> Append(base.rows, [name |-> n, kind |-> "SEG", par |-> under]), open |-> base.open]
Prescribed(S, input) ==
  LET RECURSIVE run(_, _)
      run(k, st) == IF k > Len(input) THEN st.rows ELSE run(k + 1, Step(S, st, input[k]))
  IN run(1, [rows |-> <<>>, open |-> <<>>])
=============================================================================
