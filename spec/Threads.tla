------------------------------- MODULE Threads -------------------------------
(* C19: library calls from several threads.  The only process-wide mutable structures a call touches are   *)
(* the per-version map of base datatype classes (read by datatype_factory, which overrides five entries     *)
(* with factory functions for the duration of one call) and the table of loaded version modules.            *)
(* datatype_factory is modelled step by step; with Copy = TRUE it works on a private copy of the map        *)
(* (hl7apy >= 1.3.5), with Copy = FALSE on the shared map itself (the defect fixed by #95: negative         *)
(* control).  Entries are "cls" (a datatype class) or "fn" (a factory function).                            *)
EXTENDS Naturals, Sequences, FiniteSets, TLC

CONSTANTS Thread, Version, Job,    \* Job : [Thread -> [v : Version, dt : Datatypes]]
          Copy
Datatypes == {"ST", "DT", "NM"}
Overridden == {"DT", "NM"}

VARIABLES baseMap,   \* [Version -> [Datatypes -> {"cls","fn"}]]   shared
          loaded,    \* SUBSET Version                               shared (import cache)
          pc, priv, factory, result
vars == <<baseMap, loaded, pc, priv, factory, result>>

BaseMap0 == [v \in Version |-> [d \in Datatypes |-> "cls"]]
Init == /\ baseMap = BaseMap0 /\ loaded = {}
        /\ pc = [t \in Thread |-> "load"] /\ priv = [t \in Thread |-> [d \in Datatypes |-> "none"]]
        /\ factory = [t \in Thread |-> "none"] /\ result = [t \in Thread |-> "none"]

V(t) == Job[t].v
Map(t) == IF Copy THEN priv[t] ELSE baseMap[V(t)]

Load(t) == /\ pc[t] = "load" /\ loaded' = loaded \cup {V(t)} /\ pc' = [pc EXCEPT ![t] = "getmap"]
           /\ UNCHANGED <<baseMap, priv, factory, result>>
GetMap(t) == /\ pc[t] = "getmap"
             /\ priv' = [priv EXCEPT ![t] = IF Copy THEN baseMap[V(t)] ELSE @]
             /\ pc' = [pc EXCEPT ![t] = "override"]
             /\ UNCHANGED <<baseMap, loaded, factory, result>>
Override(t) == /\ pc[t] = "override"
               /\ IF Copy
                  THEN /\ priv' = [priv EXCEPT ![t] = [d \in Datatypes |-> IF d \in Overridden THEN "fn" ELSE @[d]]]
                       /\ UNCHANGED baseMap
                  ELSE /\ baseMap' = [baseMap EXCEPT ![V(t)] = [d \in Datatypes |-> IF d \in Overridden THEN "fn" ELSE @[d]]]
                       /\ UNCHANGED priv
               /\ pc' = [pc EXCEPT ![t] = "lookup"]
               /\ UNCHANGED <<loaded, factory, result>>
Lookup(t) == /\ pc[t] = "lookup"
             /\ factory' = [factory EXCEPT ![t] = Map(t)[Job[t].dt]]
             /\ pc' = [pc EXCEPT ![t] = "dispatch"]
             /\ UNCHANGED <<baseMap, loaded, priv, result>>
\* a factory function is called with the CLASS from the shared map: factory(value, base_datatypes[datatype])
Dispatch(t) == /\ pc[t] = "dispatch"
               /\ result' = [result EXCEPT ![t] =
                     IF factory[t] = "fn"
                     THEN (IF baseMap[V(t)][Job[t].dt] = "cls" THEN "value" ELSE "TypeError")
                     ELSE "value"]
               /\ pc' = [pc EXCEPT ![t] = "done"]
               /\ UNCHANGED <<baseMap, loaded, priv, factory>>
Next == \E t \in Thread : Load(t) \/ GetMap(t) \/ Override(t) \/ Lookup(t) \/ Dispatch(t)
Spec == Init /\ [][Next]_vars /\ \A t \in Thread : WF_vars(Load(t) \/ GetMap(t) \/ Override(t) \/ Lookup(t) \/ Dispatch(t))

SharedUntouched == baseMap = BaseMap0
SameAsAlone == \A t \in Thread : pc[t] = "done" => result[t] = "value"
AllReturn == \A t \in Thread : <>(pc[t] = "done")
=============================================================================
