CONSTANTS
 t1 = t1
 t2 = t2
 t3 = t3
 Thread = {t1, t2}
 Version = {"2.5", "2.7"}
 Job <- Job2
 Copy = TRUE
SPECIFICATION Spec
INVARIANT SharedUntouched
INVARIANT SameAsAlone
PROPERTY AllReturn
CHECK_DEADLOCK FALSE
