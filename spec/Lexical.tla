------------------------------- MODULE Lexical -------------------------------
(* C13: the lexical definitions of the HL7 base datatypes DT, TM, DTM, NM, SI over code-point sequences,  *)
(* and what the library may do with a string under each validation level.                                  *)
EXTENDS Naturals, Sequences, FiniteSets, TLC

IsDigit(c) == c >= 48 /\ c <= 57
AllDigits(s) == \A i \in 1..Len(s) : IsDigit(s[i])
Val(s) == LET RECURSIVE go(_, _)
              go(i, acc) == IF i > Len(s) THEN acc ELSE go(i + 1, acc * 10 + (s[i] - 48))
          IN go(1, 0)
Sub(s, a, b) == SubSeq(s, a, b)

Leap(y) == (y % 4 = 0 /\ y % 100 # 0) \/ y % 400 = 0
DaysIn(y, m) == IF m \in {1, 3, 5, 7, 8, 10, 12} THEN 31 ELSE IF m \in {4, 6, 9, 11} THEN 30
                ELSE IF Leap(y) THEN 29 ELSE 28

(* YYYY[MM[DD]] *)
IsDate(s) == /\ Len(s) \in {4, 6, 8} /\ AllDigits(s)
             /\ Val(Sub(s, 1, 4)) >= 1
             /\ (Len(s) >= 6 => Val(Sub(s, 5, 6)) \in 1..12)
             /\ (Len(s) = 8 => Val(Sub(s, 7, 8)) \in 1..DaysIn(Val(Sub(s, 1, 4)), Val(Sub(s, 5, 6))))
(* HH[MM[SS[.S{1,4}]]] *)
IsClock(s) == \/ (Len(s) = 2 /\ AllDigits(s) /\ Val(s) <= 23)
              \/ (Len(s) = 4 /\ AllDigits(s) /\ Val(Sub(s, 1, 2)) <= 23 /\ Val(Sub(s, 3, 4)) <= 59)
              \/ (Len(s) = 6 /\ AllDigits(s) /\ Val(Sub(s, 1, 2)) <= 23 /\ Val(Sub(s, 3, 4)) <= 59 /\ Val(Sub(s, 5, 6)) <= 59)
              \/ (Len(s) \in 8..11 /\ s[7] = 46 /\ AllDigits(Sub(s, 1, 6)) /\ AllDigits(Sub(s, 8, Len(s)))
                  /\ Val(Sub(s, 1, 2)) <= 23 /\ Val(Sub(s, 3, 4)) <= 59 /\ Val(Sub(s, 5, 6)) <= 59)
(* +/-ZZZZ between -1200 and +1400, minutes 00-59 *)
IsOffset(s) == /\ Len(s) = 5 /\ s[1] \in {43, 45} /\ AllDigits(Sub(s, 2, 5)) /\ Val(Sub(s, 4, 5)) <= 59
               /\ IF s[1] = 43 THEN Val(Sub(s, 2, 5)) <= 1400 ELSE Val(Sub(s, 2, 5)) <= 1200
HasOffset(s) == Len(s) >= 5 /\ s[Len(s) - 4] \in {43, 45}
Body(s) == IF HasOffset(s) THEN Sub(s, 1, Len(s) - 5) ELSE s
OffsetOf(s) == IF HasOffset(s) THEN Sub(s, Len(s) - 4, Len(s)) ELSE <<>>

IsDT(s) == IsDate(s)
IsTM(s) == IsClock(Body(s)) /\ (HasOffset(s) => IsOffset(OffsetOf(s)))
IsDTM(s) == LET b == Body(s) IN
            /\ (HasOffset(s) => IsOffset(OffsetOf(s)))
            /\ \/ IsDate(b)
               \/ (Len(b) > 8 /\ IsDate(Sub(b, 1, 8)) /\ IsClock(Sub(b, 9, Len(b))))
(* [+|-]digits[.digits] *)
Unsigned(s) == IF s # <<>> /\ s[1] \in {43, 45} THEN Tail(s) ELSE s
DotPos(s) == IF \E i \in 1..Len(s) : s[i] = 46 THEN CHOOSE i \in 1..Len(s) : s[i] = 46 /\ \A j \in 1..(i - 1) : s[j] # 46 ELSE 0
IsNM(s) == LET u == Unsigned(s) d == DotPos(u) IN
           IF d = 0 THEN u # <<>> /\ AllDigits(u)
           ELSE d > 1 /\ d < Len(u) /\ AllDigits(Sub(u, 1, d - 1)) /\ AllDigits(Sub(u, d + 1, Len(u)))
IsSI(s) == s # <<>> /\ AllDigits(s)
\* forms the standard leaves open: no verdict on acceptance
UnspecifiedNM(s) == LET u == Unsigned(s) d == DotPos(u) IN
                    d # 0 /\ Len(u) > 1 /\ (d = 1 \/ d = Len(u))
                    /\ AllDigits(Sub(u, 1, d - 1)) /\ AllDigits(Sub(u, d + 1, Len(u)))
UnspecifiedSI(s) == Len(s) > 1 /\ s[1] = 43 /\ AllDigits(Tail(s))
YearBelow1000(s) == Len(s) >= 4 /\ AllDigits(Sub(s, 1, 4)) /\ Val(Sub(s, 1, 4)) < 1000

Is(dt, s) == CASE dt = "DT" -> IsDT(s) [] dt = "TM" -> IsTM(s) [] dt = "DTM" -> IsDTM(s)
               [] dt = "NM" -> IsNM(s) [] dt = "SI" -> IsSI(s)
Unspecified(dt, s) == CASE dt = "NM" -> UnspecifiedNM(s) [] dt = "SI" -> UnspecifiedSI(s)
                        [] dt \in {"DT", "DTM"} -> YearBelow1000(s) [] OTHER -> FALSE
MaxLen(dt) == CASE dt = "NM" -> 16 [] dt = "SI" -> 4 [] OTHER -> 1000

(* plain decimal form: no sign except '-', no leading zeros, no trailing dot *)
Plain(dt, s) == IF dt = "SI" THEN IsSI(s) /\ (Len(s) = 1 \/ s[1] # 48)
                ELSE IF dt = "NM" THEN /\ IsNM(s) /\ s[1] # 43
                                       /\ LET u == Unsigned(s) d == DotPos(u)
                                              ip == IF d = 0 THEN u ELSE Sub(u, 1, d - 1)
                                          IN Len(ip) = 1 \/ ip[1] # 48
                ELSE TRUE
(* numeric equality of two NM/SI spellings: compare sign, integer part without leading zeros, fraction without trailing zeros *)
StripLead(s) == LET RECURSIVE go(_)
                    go(i) == IF i < Len(s) /\ s[i] = 48 THEN go(i + 1) ELSE Sub(s, i, Len(s))
                IN IF s = <<>> THEN <<48>> ELSE go(1)
StripTrail(s) == LET RECURSIVE go(_)
                     go(n) == IF n >= 1 /\ s[n] = 48 THEN go(n - 1) ELSE Sub(s, 1, n)
                 IN go(Len(s))
Canon(s) == LET u == Unsigned(s) d == DotPos(u)
                ip == StripLead(IF d = 0 THEN u ELSE Sub(u, 1, d - 1))
                fp == IF d = 0 THEN <<>> ELSE StripTrail(Sub(u, d + 1, Len(u)))
                zero == ip = <<48>> /\ fp = <<>>
            IN <<IF s # <<>> /\ s[1] = 45 /\ ~zero THEN 1 ELSE 0, ip, fp>>
NumEq(a, b) == IsNM(a) /\ IsNM(b) /\ Canon(a) = Canon(b)
=============================================================================
