CONSTANTS
 Vals <- Vals2
SPECIFICATION Spec
VIEW View
CHECK_DEADLOCK FALSE
INVARIANT Closed
PROPERTY WriteLaw
PROPERTY ReadLaw
