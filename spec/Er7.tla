------------------------------- MODULE Er7 -------------------------------
(* The ER7 ("pipe and hat") grammar of HL7 v2 as total functions over code-point sequences.            *)
(* Text is Seq(Nat).  A delimiter set is a record ec = [F, C, S, R, E, T] of code points (T = 0: no     *)
(* truncation character).  A document is nested sequences:                                              *)
(*   Sub == Text, Comp == Seq(Sub), Rep == Seq(Comp), Field == Seq(Rep), Seg == [name, fields]          *)
(* every list has at least one element; the empty text at a level is the single-empty-element list.     *)
(* This module is the reference the codec properties (C01 C02 C03 C07) are judged against.              *)
EXTENDS Naturals, Sequences, FiniteSets, TLC

CRc == 13
MSHname == <<77, 83, 72>>

Last(s) == s[Len(s)]

SplitOn(t, sep) ==
  LET RECURSIVE go(_, _, _)
      go(i, cur, acc) == IF i > Len(t) THEN Append(acc, cur)
                         ELSE IF t[i] = sep THEN go(i + 1, <<>>, Append(acc, cur))
                         ELSE go(i + 1, Append(cur, t[i]), acc)
  IN go(1, <<>>, <<>>)

JoinWith(parts, sep) ==
  LET RECURSIVE go(_, _)
      go(i, acc) == IF i > Len(parts) THEN acc
                    ELSE go(i + 1, IF i = 1 THEN parts[1] ELSE (acc \o <<sep>>) \o parts[i])
  IN go(1, <<>>)

Map(f(_), s) == [i \in 1..Len(s) |-> f(s[i])]

(* ---- plain (non-MSH) levels ---- *)
ParseComp(t, ec)  == SplitOn(t, ec.S)
ParseRep(t, ec)   == LET cs == SplitOn(t, ec.C) IN [i \in 1..Len(cs) |-> ParseComp(cs[i], ec)]
ParseField(t, ec) == LET rs == SplitOn(t, ec.R) IN [i \in 1..Len(rs) |-> ParseRep(rs[i], ec)]

EncComp(c, ec)  == JoinWith(c, ec.S)
EncRep(r, ec)   == JoinWith([i \in 1..Len(r) |-> EncComp(r[i], ec)], ec.C)
EncField(f, ec) == JoinWith([i \in 1..Len(f) |-> EncRep(f[i], ec)], ec.R)

Raw(t) == <<<< <<t>> >>>>           \* a field holding one repetition, one component, one subcomponent

(* ---- segments.  MSH: MSH-1 is the field separator itself, MSH-2 is not split ---- *)
ParseSeg(t, ec) ==
  LET ps == SplitOn(t, ec.F)
      nm == ps[1]
      rest == SubSeq(ps, 2, Len(ps))
  IN IF nm = MSHname
     THEN [name |-> nm,
           fields |-> <<Raw(<<ec.F>>)>> \o
                      [i \in 1..Len(rest) |-> IF i = 1 THEN Raw(rest[1]) ELSE ParseField(rest[i], ec)]]
     ELSE [name |-> nm, fields |-> [i \in 1..Len(rest) |-> ParseField(rest[i], ec)]]

EncSeg(s, ec) ==
  IF s.name = MSHname
  THEN JoinWith(<<s.name>> \o [i \in 1..(Len(s.fields) - 1) |->
                                 IF i = 1 THEN s.fields[2][1][1][1] ELSE EncField(s.fields[i + 1], ec)], ec.F)
  ELSE JoinWith(<<s.name>> \o [i \in 1..Len(s.fields) |-> EncField(s.fields[i], ec)], ec.F)

(* ---- messages: segments separated by CR; a trailing CR is a terminator, not an empty segment ---- *)
SegLines(t) == SelectSeq(SplitOn(t, CRc), LAMBDA x : x # <<>>)
ParseMsg(t, ec) == LET ls == SegLines(t) IN [i \in 1..Len(ls) |-> ParseSeg(ls[i], ec)]
EncMsg(m, ec) == JoinWith([i \in 1..Len(m) |-> EncSeg(m[i], ec)], CRc)

(* The delimiter set a message text announces in MSH-1/MSH-2 *)
EcOfText(t) ==
  LET f == t[4]
      ps == SplitOn(SegLines(t)[1], f)
      m2 == ps[2]
  IN [F |-> f, C |-> m2[1], R |-> m2[2], E |-> m2[3], S |-> m2[4], T |-> IF Len(m2) >= 5 THEN m2[5] ELSE 0]

(* ---- canonical form ---- *)
EmptyComp(c)  == Len(c) = 1 /\ c[1] = <<>>
EmptyRep(r)   == Len(r) = 1 /\ EmptyComp(r[1])
EmptyField(f) == Len(f) = 1 /\ EmptyRep(f[1])

Blank(ch) == ch = 32 \/ ch = 9
NoEdgeBlank(t) == t = <<>> \/ (~Blank(t[1]) /\ ~Blank(Last(t)))

NoTrailComp(c)  == Len(c) = 1 \/ Last(c) # <<>>
NoTrailRep(r)   == (Len(r) = 1 \/ ~EmptyComp(Last(r))) /\ \A i \in 1..Len(r) : NoTrailComp(r[i])
NoTrailField(f) == (Len(f) = 1 \/ ~EmptyRep(Last(f))) /\ \A i \in 1..Len(f) : NoTrailRep(f[i])
\* an empty repetition anywhere but last is also not canonical (a~~b re-encodes, but ~a does not survive)
NoTrailSeg(s)   == (Len(s.fields) = 0 \/ ~EmptyField(Last(s.fields)))
                   /\ \A i \in 1..Len(s.fields) : NoTrailField(s.fields[i])

(* all leaves of a field as a flat sequence of [r, c, s, t] *)
FieldLeaves(f) ==
  UNION {UNION {{[r |-> r, c |-> c, s |-> s, t |-> f[r][c][s]] : s \in 1..Len(f[r][c])}
                : c \in 1..Len(f[r])} : r \in 1..Len(f)}

NonEmptyLeaves(f) == {x \in FieldLeaves(f) : x.t # <<>>}

(* non-empty leaves of a segment as a flat sequence of texts, in document order (C03) *)
ConcatAll(ss) == LET RECURSIVE go(_, _)
                     go(i, acc) == IF i > Len(ss) THEN acc ELSE go(i + 1, acc \o ss[i])
                 IN go(1, <<>>)
LeafSeqComp(c) == SelectSeq(c, LAMBDA t : t # <<>>)
LeafSeqRep(r) == ConcatAll([i \in 1..Len(r) |-> LeafSeqComp(r[i])])
LeafSeqField(f) == ConcatAll([i \in 1..Len(f) |-> LeafSeqRep(f[i])])
LeafSeq(seg) == ConcatAll([i \in 1..Len(seg.fields) |-> LeafSeqField(seg.fields[i])])

(* ---- position law (C02): the only non-empty leaf of segment text t sits at field i, rep 1, comp j, sub k ---- *)
OnlyLeafAt(seg, i, j, k, val) ==
  /\ i <= Len(seg.fields)
  /\ \A n \in (IF seg.name = MSHname THEN 3 ELSE 1)..Len(seg.fields) :   \* MSH-1/2 spell the delimiters
        IF n = i
        THEN NonEmptyLeaves(seg.fields[n]) = {[r |-> 1, c |-> j, s |-> k, t |-> val]}
        ELSE NonEmptyLeaves(seg.fields[n]) = {}

(* ---- separators actually used by a text, given what it claims ---- *)
Count(t, ch) == Cardinality({i \in 1..Len(t) : t[i] = ch})
=============================================================================
