----------------------------- MODULE LexicalMC -----------------------------
(* Generators of date/time and numeric strings around every boundary of the lexical definitions, plus    *)
(* laws relating the definitions to each other.  Every generated string becomes a test input.              *)
EXTENDS Lexical
CONSTANTS Mode,    \* "time" : slot-wise date/time strings;  "num" : all strings over NumSyms up to MaxLen
          MaxStr, Rich,
          EndAfterJunk   \* TRUE: a string ends with its junk / blanked slot (keeps the rich generator small)

S(str) == str   \* strings are written as tuples of code points below
Years  == IF Rich THEN {<<48,57,57,57>>, <<49,48,48,48>>, <<49,57,48,48>>, <<50,48,48,48>>, <<50,48,50,51>>, <<50,48,50,52>>, <<57,57,57,57>>}
          ELSE {<<49,57,48,48>>, <<50,48,50,52>>, <<50,48,50,51>>}
Months == IF Rich THEN {<<48,48>>, <<48,49>>, <<48,50>>, <<48,52>>, <<49,50>>, <<49,51>>} ELSE {<<48,48>>, <<48,50>>, <<49,50>>, <<49,51>>}
Days   == IF Rich THEN {<<48,48>>, <<48,49>>, <<50,56>>, <<50,57>>, <<51,48>>, <<51,49>>, <<51,50>>} ELSE {<<48,48>>, <<50,57>>, <<51,48>>, <<51,49>>}
Hours  == IF Rich THEN {<<48,48>>, <<50,51>>, <<50,52>>} ELSE {<<50,51>>, <<50,52>>}
Mins   == IF Rich THEN {<<48,48>>, <<53,57>>, <<54,48>>} ELSE {<<53,57>>, <<54,48>>}
Secs   == IF Rich THEN {<<48,48>>, <<53,57>>, <<54,48>>} ELSE {<<53,57>>, <<54,48>>}
Fracs  == {<<46>>, <<46,49>>, <<46,49,50,51>>, <<46,49,50,51,52>>} \cup (IF Rich THEN {<<46,48,48>>, <<46,57,57,57>>} ELSE {})
Offs   == {<<43,48,48,48,48>>, <<43,49,52,48,48>>, <<43,49,52,48,49>>, <<43,49,52,53,57>>, <<43,49,53,48,48>>,
           <<45,49,50,48,48>>, <<45,49,50,48,49>>, <<45,49,51,48,48>>, <<43,48,48,54,48>>, <<43,48,49,48>>,
           <<43,48,49,48,48,48>>, <<90>>, <<45,48,53,51,48>>}
Junk   == IF Rich THEN {<<32>>, <<97>>, <<45>>} ELSE {<<32>>}
NumSyms == {48, 49, 57, 46, 43, 45, 32, 101, 95, 97}

VARIABLES s, slot, junked
vars == <<s, slot, junked>>
\* slots: 1 year 2 month 3 day 4 hour 5 minute 6 second 7 fraction 8 offset 9 end
Choices(k) == CASE k = 1 -> Years [] k = 2 -> Months [] k = 3 -> Days [] k = 4 -> Hours [] k = 5 -> Mins
                [] k = 6 -> Secs [] k = 7 -> Fracs [] k = 8 -> Offs [] OTHER -> {}
InitTime == s = <<>> /\ slot \in {1, 4} /\ junked = FALSE      \* DT/DTM start with the year, TM with the hour
NextTime == \/ /\ slot <= 8 /\ \E c \in Choices(slot) : s' = s \o c
               /\ slot' \in (IF slot = 7 THEN {8, 9} ELSE IF slot = 8 THEN {9} ELSE {slot + 1, 8, 9})
               /\ UNCHANGED junked
            \/ /\ slot <= 8 /\ ~junked /\ (Rich \/ slot \in {1, 4, 8}) /\ \E j \in Junk : s' = s \o j
               /\ junked' = TRUE /\ slot' = (IF EndAfterJunk THEN 9 ELSE slot)
            \* a slot of the right width in which a digit is replaced by a blank or a letter (once per string)
            \/ /\ slot <= 6 /\ ~junked /\ (Rich \/ slot \in {2, 3, 5})
               /\ \E c \in Choices(slot), k \in {1, 2}, ch \in (IF Rich THEN {32, 97} ELSE {32}) :
                      k <= Len(c) /\ s' = s \o [c EXCEPT ![k] = ch]
               /\ slot' \in (IF EndAfterJunk THEN {9} ELSE {slot + 1, 9})
               /\ junked' = TRUE
InitNum == s = <<>> /\ slot = 0 /\ junked = FALSE
NextNum == Len(s) < MaxStr /\ \E c \in NumSyms : s' = Append(s, c) /\ UNCHANGED <<slot, junked>>
Init == IF Mode = "time" THEN InitTime ELSE InitNum
Next == IF Mode = "time" THEN NextTime ELSE NextNum
Spec == Init /\ [][Next]_vars

(* laws of the definitions *)
DateIsDateTime == IsDT(s) => IsDTM(s)
OffsetIsOptional == (IsDTM(s) /\ HasOffset(s)) => IsDTM(Body(s))
TimeExtendsDate == IsTM(s) => IsDTM(<<50,48,50,48,48,49,48,49>> \o s)
PlainIsValid == (Plain("NM", s) => IsNM(s)) /\ (IsSI(s) => IsNM(s))
NumEqReflexive == IsNM(s) => NumEq(s, s)
UnspecifiedIsNotValid == (UnspecifiedNM(s) => ~IsNM(s)) /\ (UnspecifiedSI(s) => ~IsSI(s))
=============================================================================
