CONSTANTS
 Guarded = TRUE
 MaxDepth = 2
 PlansOnly = TRUE
SPECIFICATION Spec
INVARIANT NoCrash
INVARIANT Total
CHECK_DEADLOCK FALSE
