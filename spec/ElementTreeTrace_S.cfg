CONSTANTS
 Parents = {1, 2}
 Obj = {1, 2, 3, 4, 5, 6, 7, 8, 9, 10, 11, 12}
 Names = {"A", "B", "C"}
 MaxRep <- MaxRepT
 Strict = TRUE
SPECIFICATION Spec
CHECK_DEADLOCK FALSE
INVARIANT Done
POSTCONDITION AllJudged
