------------------------------- MODULE Escape -------------------------------
(* C06: what the ER7 encoding of a textual leaf must satisfy, for any delimiter set.                     *)
(* Text is Seq(Nat); ec = [F, C, S, R, E, T] (T = 0: none); fam = 27 when the version knows \L\ and the  *)
(* truncation character.                                                                                  *)
EXTENDS Naturals, Sequences, FiniteSets, TLC

Upper(a) == a  \* code points are compared as they are: escape letters are upper-case in ER7
LettersOf(fam) == IF fam = 27 THEN {72, 78, 70, 83, 84, 82, 69, 76} ELSE {72, 78, 70, 83, 84, 82, 69}   \* H N F S T R E (L)
Delims(ec, fam) == {ec.F, ec.C, ec.S, ec.R} \cup (IF fam = 27 /\ ec.T # 0 THEN {ec.T} ELSE {})
IsHex(c) == (c >= 48 /\ c <= 57) \/ (c >= 65 /\ c <= 70) \/ (c >= 97 /\ c <= 102)
IsAlnum(c) == (c >= 48 /\ c <= 57) \/ (c >= 65 /\ c <= 90) \/ (c >= 97 /\ c <= 122)

(* length of the escape sequence starting at t[i] (t[i] = E), 0 when t[i] opens none.                    *)
(* single letter: E l E.  Standard multi-character sequences: E X hh.. E, E Z alnum.. E, E C hhhh E,       *)
(* E M hhhhhh E, E . alnum.. E (formatting commands of FT).                                                *)
NextE(t, i, E) == LET RECURSIVE go(_)
                      go(k) == IF k > Len(t) THEN 0 ELSE IF t[k] = E THEN k ELSE go(k + 1)
                  IN go(i)
SeqLen(t, i, ec, fam) ==
  IF i + 2 <= Len(t) /\ t[i + 1] \in LettersOf(fam) /\ t[i + 2] = ec.E THEN 3
  ELSE LET j == NextE(t, i + 1, ec.E) IN
       IF j = 0 \/ j < i + 3 \/ t[i + 1] \in Delims(ec, fam) THEN 0
       ELSE LET h == t[i + 1]
                body == SubSeq(t, i + 2, j - 1)
                allhex == \A k \in 1..Len(body) : IsHex(body[k])
                allalnum == \A k \in 1..Len(body) : IsAlnum(body[k])
            IN IF (h = 88 /\ allhex /\ Len(body) % 2 = 0) \/ (h = 90 /\ allalnum)
                  \/ (h = 67 /\ allhex /\ Len(body) = 4) \/ (h = 77 /\ allhex /\ Len(body) \in {4, 6})
                  \/ (h = 46 /\ allalnum)
               THEN j - i + 1 ELSE 0

(* left-to-right tokenisation: every escape character opens a complete sequence *)
WellFormed(t, ec, fam) ==
  LET RECURSIVE go(_)
      go(i) == IF i > Len(t) THEN TRUE
               ELSE IF t[i] = ec.E THEN (LET n == SeqLen(t, i, ec, fam) IN n > 0 /\ go(i + n))
               ELSE go(i + 1)
  IN go(1)
DelimSafe(t, ec, fam) == \A i \in 1..Len(t) : t[i] \notin Delims(ec, fam)
Stable(t, ec, fam) == WellFormed(t, ec, fam) /\ DelimSafe(t, ec, fam)

(* the property *)
Allowed(in, out, ec, fam) ==
  /\ DelimSafe(out, ec, fam)
  /\ WellFormed(out, ec, fam)
  /\ (Stable(in, ec, fam) => out = in)

SeqFor(ch, ec, fam) == IF ch = ec.F THEN <<ec.E, 70, ec.E>> ELSE IF ch = ec.C THEN <<ec.E, 83, ec.E>>
                       ELSE IF ch = ec.S THEN <<ec.E, 84, ec.E>> ELSE IF ch = ec.R THEN <<ec.E, 82, ec.E>>
                       ELSE IF ch = ec.E THEN <<ec.E, 69, ec.E>> ELSE <<ec.E, 76, ec.E>>

(* a witness that the property is satisfiable: tokenise left to right, keep complete sequences *)
EscapeRef(t, ec, fam) ==
  LET RECURSIVE go(_, _)
      go(i, acc) == IF i > Len(t) THEN acc
                    ELSE IF t[i] = ec.E
                         THEN LET n == SeqLen(t, i, ec, fam) IN
                              IF n > 0 THEN go(i + n, acc \o SubSeq(t, i, i + n - 1))
                              ELSE go(i + 1, acc \o SeqFor(ec.E, ec, fam))
                    ELSE IF t[i] \in Delims(ec, fam) THEN go(i + 1, acc \o SeqFor(t[i], ec, fam))
                    ELSE go(i + 1, Append(acc, t[i]))
  IN go(1, <<>>)

(* transcription of the algorithm hl7apy 1.3.x shipped: sequential replacement of the delimiters, then   *)
(* a substitution of escape characters guarded by a look-behind (not preceded by E l) and a look-ahead     *)
(* (not followed by l E).  Kept as a negative control: TLC must refute Allowed for it.                      *)
Replace1(t, ch, ec, fam) ==
  LET RECURSIVE go(_, _)
      go(i, acc) == IF i > Len(t) THEN acc
                    ELSE go(i + 1, IF t[i] = ch THEN acc \o SeqFor(ch, ec, fam) ELSE Append(acc, t[i]))
  IN go(1, <<>>)
EscapeOld(t, ec, fam) ==
  LET a == Replace1(t, ec.F, ec, fam)
      b == Replace1(a, ec.C, ec, fam)
      c == Replace1(b, ec.S, ec, fam)
      d == Replace1(c, ec.R, ec, fam)
      e == IF fam = 27 /\ ec.T # 0 THEN Replace1(d, ec.T, ec, fam) ELSE d
      Lone(i) == /\ e[i] = ec.E
                 /\ ~(i > 2 /\ e[i - 2] = ec.E /\ e[i - 1] \in LettersOf(fam))
                 /\ ~(i + 2 <= Len(e) /\ e[i + 1] \in LettersOf(fam) /\ e[i + 2] = ec.E)
      RECURSIVE sub(_, _)
      sub(i, acc) == IF i > Len(e) THEN acc
                     ELSE sub(i + 1, IF Lone(i) THEN acc \o SeqFor(ec.E, ec, fam) ELSE Append(acc, e[i]))
  IN sub(1, <<>>)
=============================================================================
