------------------------------- MODULE Er7MC -------------------------------
(* Bounded generator of abstract ER7 segments + the laws of the reference grammar (binding M for C01,  *)
(* C02, C03, C07).  Every reachable document is also an abstract test shape the harness concretises.    *)
EXTENDS Er7

CONSTANTS MaxFields, MaxReps, MaxComps, MaxSubs, MaxLeaves, WithMSH, MaxDepth

ec0 == [F |-> 124, C |-> 94, S |-> 38, R |-> 126, E |-> 92, T |-> 0]
ecX == [F |-> 33, C |-> 64, S |-> 36, R |-> 37, E |-> 47, T |-> 35]     \* ! @ $ % / #
Leafs == {<<>>, <<97>>, <<97, 32, 98>>}

VARIABLES doc, ec
vars == <<doc, ec>>

EmptyF == <<<< <<<<>>>> >>>>
Names == IF WithMSH THEN {<<80, 73, 68>>, MSHname} ELSE {<<80, 73, 68>>}

NLeaves(d) == LET RECURSIVE sum(_, _)
                  sum(i, acc) == IF i > Len(d.fields) THEN acc
                                 ELSE sum(i + 1, acc + Cardinality(NonEmptyLeaves(d.fields[i])))
              IN sum(1, 0)

Init == /\ ec \in {ec0, ecX}
        /\ \E n \in Names :
             doc = IF n = MSHname
                   THEN [name |-> n, fields |-> <<Raw(<<ec.F>>), Raw(<<ec.C, ec.R, ec.E, ec.S>>)>>]
                   ELSE [name |-> n, fields |-> <<>>]

First == IF doc.name = MSHname THEN 3 ELSE 1     \* first ordinary field

AddField == /\ Len(doc.fields) < MaxFields + First - 1
            /\ doc' = [doc EXCEPT !.fields = Append(@, EmptyF)]
AddRep(i) == /\ Len(doc.fields[i]) < MaxReps
             /\ doc' = [doc EXCEPT !.fields[i] = Append(@, << <<<<>>>> >>)]
AddComp(i, r) == /\ Len(doc.fields[i][r]) < MaxComps
                 /\ doc' = [doc EXCEPT !.fields[i][r] = Append(@, <<<<>>>>)]
AddSub(i, r, c) == /\ Len(doc.fields[i][r][c]) < MaxSubs
                   /\ doc' = [doc EXCEPT !.fields[i][r][c] = Append(@, <<>>)]
PutLeaf(i, r, c, s, t) == /\ doc.fields[i][r][c][s] = <<>> /\ t # <<>>
                          /\ NLeaves(doc) < MaxLeaves
                          /\ doc' = [doc EXCEPT !.fields[i][r][c][s] = t]

Next == /\ UNCHANGED ec
        /\ \/ AddField
           \/ \E i \in First..Len(doc.fields) :
                \/ AddRep(i)
                \/ \E r \in 1..Len(doc.fields[i]) :
                     \/ AddComp(i, r)
                     \/ \E c \in 1..Len(doc.fields[i][r]) :
                          \/ AddSub(i, r, c)
                          \/ \E s \in 1..Len(doc.fields[i][r][c]), t \in Leafs : PutLeaf(i, r, c, s, t)
Spec == Init /\ [][Next]_vars

Bound == TLCGet("level") <= MaxDepth

(* ---- trimming, as a canonical encoder does it ---- *)
DropTrail(s, empty(_)) ==
  LET RECURSIVE go(_)
      go(n) == IF n > 1 /\ empty(s[n]) THEN go(n - 1) ELSE SubSeq(s, 1, n)
  IN go(Len(s))
TrimComp(c)  == DropTrail(c, LAMBDA x : x = <<>>)
TrimRep(r)   == DropTrail([i \in 1..Len(r) |-> TrimComp(r[i])], EmptyComp)
TrimField(f) == DropTrail([i \in 1..Len(f) |-> TrimRep(f[i])], EmptyRep)
TrimSeg(d)   == LET fs == [i \in 1..Len(d.fields) |-> TrimField(d.fields[i])]
                    RECURSIVE go(_)
                    go(n) == IF n >= 1 /\ EmptyField(fs[n]) THEN go(n - 1) ELSE SubSeq(fs, 1, n)
                IN [name |-> d.name, fields |-> go(Len(fs))]

(* ---- laws ---- *)
RoundTrip == ParseSeg(EncSeg(doc, ec), ec) = doc
TrimCanonical == LET t == TrimSeg(doc) IN NoTrailSeg(t) /\ TrimSeg(t) = t /\ ParseSeg(EncSeg(t, ec), ec) = t
CanonicalFixpoint == NoTrailSeg(doc) <=> TrimSeg(doc) = doc
TrimKeepsLeaves ==
  LET t == TrimSeg(doc) IN
  \A i \in 1..Len(doc.fields) :
     NonEmptyLeaves(doc.fields[i]) = IF i <= Len(t.fields) THEN NonEmptyLeaves(t.fields[i]) ELSE {}
\* position law: a single non-empty leaf at (i, 1, c, s) is preceded by exactly i F (MSH: i-1), c-1 C, s-1 S, no R
SingleLeaf == NLeaves(doc) = (IF doc.name = MSHname THEN 3 ELSE 1)
PositionLaw ==
  \A i \in First..Len(doc.fields) :
    \A x \in NonEmptyLeaves(doc.fields[i]) :
      (SingleLeaf /\ x.r = 1) =>
        LET txt == EncSeg(TrimSeg(doc), ec)
            body == IF doc.name = MSHname THEN SubSeq(txt, 9, Len(txt)) ELSE txt
        IN /\ Count(body, ec.F) = (IF doc.name = MSHname THEN i - 2 ELSE i)
           /\ Count(body, ec.C) = x.c - 1 /\ Count(body, ec.S) = x.s - 1 /\ Count(body, ec.R) = 0
           /\ OnlyLeafAt([name |-> doc.name,
                          fields |-> [n \in 1..Len(ParseSeg(txt, ec).fields) |->
                                        IF doc.name = MSHname /\ n <= 2 THEN EmptyF ELSE ParseSeg(txt, ec).fields[n]]],
                         i, x.c, x.s, x.t)
\* closure: every separator in the encoding is one of ec's (C07), MSH-1/2 spell the set
Closure == LET txt == EncSeg(TrimSeg(doc), ec) IN
           doc.name = MSHname => /\ txt[4] = ec.F /\ SubSeq(txt, 5, 8) = <<ec.C, ec.R, ec.E, ec.S>>
                                 /\ EcOfText(txt) = [ec EXCEPT !.T = 0]
=============================================================================
