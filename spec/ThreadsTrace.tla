---------------------------- MODULE ThreadsTrace ----------------------------
(* Judges observations of real threads (C19): after every scheduled step the shared per-version maps of   *)
(* base datatype classes must be what they were, and every call must return what it returns alone.        *)
EXTENDS Naturals, Sequences, TLC, Json, IOUtils
Events == ndJsonDeserialize(IOEnv.EVENTS)
VARIABLES l, nontriv, failed
vars == <<l, nontriv, failed>>
Verdict(e) ==
  IF e.k = "step" THEN (IF e.maps # e.maps0 THEN "shared_datatype_map_changed" ELSE "ok")
  ELSE IF e.result # e.alone THEN "result_differs_from_running_alone" ELSE "ok"
Init == l = 1 /\ nontriv = 0 /\ failed = 0
Next == /\ l <= Len(Events)
        /\ LET e == Events[l]
               v == Verdict(e)
           IN /\ IF v = "ok" THEN TRUE ELSE PrintT(<<"V", e.id, v>>)
              /\ nontriv' = nontriv + 1
              /\ failed' = failed + (IF v = "ok" THEN 0 ELSE 1)
        /\ l' = l + 1
Spec == Init /\ [][Next]_vars
Done == l = Len(Events) + 1 => PrintT(<<"S", Len(Events), nontriv, failed>>)
AllJudged == TLCGet("stats").diameter = Len(Events) + 1
=============================================================================
