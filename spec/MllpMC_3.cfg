CONSTANTS
 c1 = c1
 c2 = c2
 c3 = c3
 Conn = {c1, c2, c3}
 Script <- Script3
 Kind <- Kind3
 ErrHandler = TRUE
INIT Init
NEXT Next
INVARIANT AtMostOneCall
INVARIANT Outcome
INVARIANT FullFrameServed
INVARIANT LineIsPrefix
INVARIANT NoCrossTalk
INVARIANT ReplyOnlyAfterCall
CHECK_DEADLOCK FALSE
