------------------------------- MODULE Header -------------------------------
(* C15: what the header functions of the parser (hl7apy/parser.py _split_msh, get_message_type,          *)
(* get_message_info) do with ANY text, transcribed with total accessors: an index past the end of a list  *)
(* yields the outcome "Crash" instead of a value.  The property is that no input reaches "Crash".          *)
EXTENDS Naturals, Sequences, FiniteSets, TLC
LOCAL INSTANCE Er7

At(s, i) == IF i >= 1 /\ i <= Len(s) THEN s[i] ELSE <<"Crash">>
IsSpace(c) == c \in {32, 9, 10, 13, 11, 12}
Distinct(s) == \A i, j \in 1..Len(s) : i # j => s[i] # s[j]
FirstLine(t) == LET ps == SplitOn(t, 13) IN ps[1]
\* lexicographic comparison  a >= b  of two code-point strings (Python str comparison)
Geq(a, b) == LET RECURSIVE go(_)
                 go(i) == IF i > Len(b) THEN TRUE ELSE IF i > Len(a) THEN FALSE
                          ELSE IF a[i] > b[i] THEN TRUE ELSE IF a[i] < b[i] THEN FALSE ELSE go(i + 1)
             IN go(1)
V27 == <<50, 46, 55>>

(* outcome of _split_msh: "ok" | "ParserError" | "InvalidEncodingChars" | "Crash"; Guarded = the check    *)
(* that the header has a twelfth field before looking at it (absent in hl7apy 1.3.x)                        *)
SplitMsh(t, Guarded) ==
  IF ~(Len(t) >= 4 /\ SubSeq(t, 1, 3) = <<77, 83, 72>> /\ ~IsSpace(t[4])) THEN "ParserError"
  ELSE LET fields == SplitOn(FirstLine(t), t[4])
           seps == fields[2]
       IN IF ~Distinct(seps) THEN "InvalidEncodingChars"
          ELSE IF \E i \in 1..Len(seps) : IsSpace(seps[i]) THEN "InvalidEncodingChars"   \* (commit 2088a40)
          ELSE IF Len(seps) = 4 THEN "ok"
          ELSE IF Len(seps) < 4 THEN "InvalidEncodingChars"
          ELSE IF Len(seps) = 5
               THEN IF Len(fields) >= 12 THEN (IF Geq(fields[12], V27) THEN "ok" ELSE "InvalidEncodingChars")
                    ELSE IF Guarded THEN "InvalidEncodingChars" ELSE "Crash"
               ELSE "InvalidEncodingChars"
\* get_message_type adds nothing that can fail: fields[8] is read under try/except IndexError
GetMessageType(t, Guarded) == SplitMsh(t, Guarded)
=============================================================================
