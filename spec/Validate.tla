------------------------------ MODULE Validate ------------------------------
(* C04: the structural verdict of validation.  From a message structure S (GroupFinder's node format),   *)
(* the observed forest (rows <<name, kind, par, isZ>>) and, per segment instance, its field table          *)
(* (<<name, min, max>>) and the names of the fields it holds, the set of errors a validator must report at   *)
(* message, group and segment level: <<"missing" | "limit" | "invalid", parent name, child name>>.           *)
EXTENDS Integers, Sequences, FiniteSets, TLC

Unlimited == -1
NodeKids(S, g) == {i \in 1..Len(S) : S[i].par = g}
RowKids(rows, r) == {q \in 1..Len(rows) : rows[q].par = r}
(* the structure node a group row stands for: found by descending from the message, so that a group name used at  *)
(* two places of a structure (RPA_I08_AUTHORIZATION) designates the node of the place the row is at; 0 = none      *)
RECURSIVE RowNode(_, _, _)
RowNode(S, rows, r) ==
  IF r = 0 THEN 0
  ELSE LET p == rows[r].par
           g == RowNode(S, rows, p)
           c == {i \in NodeKids(S, g) : S[i].kind = "GRP" /\ S[i].name = rows[r].name}
       IN IF (p # 0 /\ g = 0) \/ c = {} THEN 0 ELSE CHOOSE i \in c : TRUE
CountNamed(rows, r, n) == Cardinality({q \in RowKids(rows, r) : rows[q].name = n})

\* errors for the children of one parent (r = 0: the message, else a group row)
ParentErrors(S, rows, r, pname) ==
  LET g == RowNode(S, rows, r)
      allowed == {S[i].name : i \in NodeKids(S, g)}
  IN {<<"missing", pname, S[i].name>> : i \in {k \in NodeKids(S, g) : CountNamed(rows, r, S[k].name) < S[k].min}}
     \cup {<<"limit", pname, S[i].name>> : i \in {k \in NodeKids(S, g) : S[k].max # Unlimited /\ CountNamed(rows, r, S[k].name) > S[k].max}}
     \cup {<<"invalid", pname, rows[q].name>> : q \in {k \in RowKids(rows, r) : rows[k].name \notin allowed /\ ~rows[k].z}}
\* groups that are not declared children are reported as invalid and not descended into
Visited(S, rows, r) ==   \* is row r reached by a descent that only follows declared children?
  LET RECURSIVE ok(_)
      ok(q) == IF q = 0 THEN TRUE
               ELSE LET p == rows[q].par
                        g == RowNode(S, rows, p)
                    IN ok(p) /\ \E i \in NodeKids(S, g) : S[i].name = rows[q].name /\ S[i].kind = rows[q].kind
  IN ok(r)
StructErrors(S, rows, msgname) ==
  ParentErrors(S, rows, 0, msgname)
  \cup UNION {ParentErrors(S, rows, r, rows[r].name) : r \in {q \in 1..Len(rows) : rows[q].kind = "GRP" /\ Visited(S, rows, q)}}

\* segment level: seg = [row, name, table : Seq(<<fname, min, max>>), kids : Seq(fname)]
CountField(seg, f) == Cardinality({k \in 1..Len(seg.kids) : seg.kids[k] = f})
(* seg.extra (optional): names of children that are additional fields of an open-ended segment (last defined field of      *)
(* type varies): they are allowed.  seg.shape (optional): <<field name, number of children of that field instance,      *)
(* the table says it is of a base datatype>>: a base-datatype field holding more than one component has lost its          *)
(* datatype and is reported as <<"datatype", segment, field>>.                                                            *)
SegErrors(seg) ==
  LET names == {seg.table[i][1] : i \in 1..Len(seg.table)}
               \cup (IF "extra" \in DOMAIN seg THEN {seg.extra[i] : i \in 1..Len(seg.extra)} ELSE {}) IN
  (IF "shape" \in DOMAIN seg
   THEN {<<"datatype", seg.name, seg.shape[i][1]>> : i \in {k \in 1..Len(seg.shape) : seg.shape[k][3] /\ seg.shape[k][2] > 1}}
   ELSE {}) \cup
  {<<"missing", seg.name, seg.table[i][1]>> : i \in {k \in 1..Len(seg.table) : CountField(seg, seg.table[k][1]) < seg.table[k][2]}}
  \cup {<<"limit", seg.name, seg.table[i][1]>> : i \in {k \in 1..Len(seg.table) :
            seg.table[k][3] # Unlimited /\ CountField(seg, seg.table[k][1]) > seg.table[k][3]}}
  \cup {<<"invalid", seg.name, seg.kids[k]>> : k \in {j \in 1..Len(seg.kids) : seg.kids[j] \notin names}}
=============================================================================
