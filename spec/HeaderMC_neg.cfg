CONSTANTS
 Guarded = FALSE
 MaxDepth = 0
 PlansOnly = FALSE
SPECIFICATION Spec
INVARIANT NoCrash
INVARIANT Total
CHECK_DEADLOCK FALSE
