CONSTANTS
 MaxLen = 4
 Fam = 25
 UseOld = TRUE
SPECIFICATION Spec
CHECK_DEADLOCK FALSE
INVARIANT PropertyHolds
