---------------------------- MODULE GroupFinderMC ----------------------------
(* The prescription itself is checked on a family of small structures x all short inputs: it is sound,    *)
(* flattens to the input, never leaves a group empty, and is a fixpoint of re-reading its own flattening.    *)
EXTENDS GroupFinder
N(n, k, mn, mx, p) == [name |-> n, kind |-> k, min |-> mn, max |-> mx, par |-> p]
\* M: A  G1[B  G2[C D*]]  E          nested repeatable groups
S1 == <<N("A", "SEG", 1, 1, 0), N("G1", "GRP", 0, 0, 0), N("B", "SEG", 1, 1, 2), N("G2", "GRP", 0, 0, 2),
        N("C", "SEG", 1, 1, 4), N("D", "SEG", 0, 0, 4), N("E", "SEG", 0, 1, 0)>>
\* M: A  G1?[B C?]  G2*[D  G3*[E]]   optional group first, sibling groups
S2 == <<N("A", "SEG", 1, 1, 0), N("G1", "GRP", 0, 1, 0), N("B", "SEG", 1, 1, 2), N("C", "SEG", 0, 1, 2),
        N("G2", "GRP", 0, 0, 0), N("D", "SEG", 1, 1, 5), N("G3", "GRP", 0, 0, 5), N("E", "SEG", 1, 1, 7)>>
\* M: A  G1*[B  G2?[C]  D]           a member after a nested group
S3 == <<N("A", "SEG", 1, 1, 0), N("G1", "GRP", 0, 0, 0), N("B", "SEG", 1, 1, 2), N("G2", "GRP", 0, 1, 2),
        N("C", "SEG", 1, 1, 4), N("D", "SEG", 0, 1, 2)>>
Structs == <<S1, S2, S3>>
CONSTANTS MaxLen
VARIABLES sid, input
vars == <<sid, input>>
NamesOf(S) == {S[i].name : i \in {k \in 1..Len(S) : S[k].kind = "SEG"}}
Init == sid \in 1..Len(Structs) /\ input = <<>>
Next == /\ Len(input) < MaxLen /\ \E n \in NamesOf(Structs[sid]) : input' = Append(input, n)
        /\ UNCHANGED sid
Spec == Init /\ [][Next]_vars
P == Prescribed(Structs[sid], input)
PrescribedIsSound == Sound(Structs[sid], P)
PrescribedFlattens == Flatten(P) = input
PrescribedNoEmptyGroup == NoEmptyGroup(P)
PrescribedDocumentOrder == \A r \in 1..Len(P) : P[r].par < r
=============================================================================
