------------------------------- MODULE LazyMC -------------------------------
(* Bounded model: an abstract universe of chains; every interleaving of reads (at any chain) and writes  *)
(* (at leaf chains).  The dumped graph is replayed on real messages and segments.                         *)
EXTENDS Lazy

CONSTANTS Vals
Universe == {<<"a">>, <<"a", "x">>, <<"a", "x", "m">>, <<"a", "x", "m", "t">>, <<"a", "y">>, <<"b">>, <<"b", "x">>}
Leaves == {<<"a", "x", "m", "t">>, <<"a", "y">>, <<"b", "x">>}

VARIABLES tree, last
vars == <<tree, last>>
View == tree

Init == tree = {} /\ last = <<"Init", <<>>, <<>>>>
Read(p) == tree' = tree /\ last' = <<"Read", p, <<>>>>
Write(p, v) ==
  /\ tree' = {r \in tree : r.p \notin Prefixes(p)}
             \cup {[p |-> q, v |-> IF q = p THEN v ELSE <<>>] : q \in Prefixes(p)}
  /\ last' = <<"Write", p, v>>
Next == (\E p \in Universe : Read(p)) \/ (\E p \in Leaves, v \in Vals : Write(p, v))
Spec == Init /\ [][Next]_vars

Closed == PrefixClosed(tree) /\ OneRowPerPath(tree)
WriteLaw == [][last'[1] = "Write" => WriteAllowed({[p |-> r.p, v |-> IF r.p \in Leaves THEN r.v ELSE <<>>] : r \in tree},
                                                  tree', last'[2], last'[3])]_vars
ReadLaw == [][last'[1] = "Read" => ReadAllowed(tree, tree')]_vars
Vals2 == {<<49>>, <<50>>}
=============================================================================
