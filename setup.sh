#!/bin/sh
# Nothing to build: specifications are interpreted by TLC, the harness is plain Python run by /venv/bin/python.
set -e
cd "$(dirname "$0")"
command -v java >/dev/null
test -f /opt/veriftools/tla/tla2tools.jar
/venv/bin/python -c "import sys; sys.path.insert(0, '/repo'); import hl7apy"
mkdir -p evidence replays
echo setup ok
