#!/usr/bin/env python3
"""Summarise /verif/replays/<PID>_*.json: one line per distinct signature with the head of the detail."""
import glob, json, sys
pid = sys.argv[1]
width = int(sys.argv[2]) if len(sys.argv) > 2 else 700
seen = set()
for f in sorted(glob.glob('/verif/replays/%s_*.json' % pid)):
    try:
        d = json.load(open(f))
    except Exception:
        continue
    if not isinstance(d, dict):
        continue
    k = json.dumps(d.get('signature'), sort_keys=True)
    if k in seen:
        continue
    seen.add(k)
    print(k)
    print('   ', json.dumps(d.get('detail'))[:width])
