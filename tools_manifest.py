#!/usr/bin/env python3
"""Regenerates MANIFEST.json from the table below (run by hand when a check is added)."""
import json, os
HERE = os.path.dirname(os.path.abspath(__file__))
CHECKS = {
 "C02": dict(
    technique="TLA+ reference grammar (Er7.tla) model-checked by TLC; every table row driven through the real API and the observation judged by the TLC trace specification Er7Trace",
    text="Exhaustive over the finite space the property quantifies over: every (version, segment, field) row, every (version, complex datatype, component, subcomponent) row and sampled/all open-ended indices are populated through the public API; TLC parses the emitted text with the reference grammar and decides the position law. The grammar's own laws are model-checked on a bounded document space.",
    note="Trusted: TLC, the Er7 reference grammar, the harness' projection (to_er7 text, names of non-empty parsed children). One probe value ('2020') per position; repetitions are not part of the position law.",
    ref="DESIGN.md §4 C02, §3.1"),
}
_TREE_TECH = "TLA+ reference container (ElementTree.tla: Succ = allowed outcomes of every public mutator) model-checked by TLC; TLC's dumped state graph is replayed on real elements and every recorded step is judged by the TLC trace specification ElementTreeTrace"
_TREE_NOTE = "Trusted: TLC, the reference semantics in ElementTree.tla, the public-API projection (children, by-name lookup, parent, to_er7, validate). Bounded: 2 parents, <=3 live objects and <=2 children per parent in the replayed graph (quick and thorough replay seeded shares of its states), concretised on Segment PID and Group ADT_A01_INSURANCE, both validation levels."
CHECKS.update({
 "C09": dict(technique=_TREE_TECH, note=_TREE_NOTE, ref="DESIGN.md §4 C09-C12, §3.6",
    text="Every reachable state of the bounded reference model x every operation (set by name/index/position/object, add, insert, delete, pop, remove, copy, re-parent) is executed on real elements along several paths; TLC decides for each recorded step whether the observed successor state and encoding are among those the ordered-list model allows. The model's own laws (order of untouched siblings kept, locality) are checked as TLC action properties."),
 "C10": dict(technique=_TREE_TECH, note=_TREE_NOTE, ref="DESIGN.md §4 C09-C12, §3.6",
    text="After every step of the same replayed behaviours TLC checks the consistency clauses on the observed state: no child listed twice or by two parents, by-name views = list filtered by name (content, order, len), iteration and len agree, every listed child's parent pointer, one version and level per tree; and that calls the reference must refuse (foreign child, other level, STRICT overflow) are refused."),
 "C12": dict(technique=_TREE_TECH, note=_TREE_NOTE, ref="DESIGN.md §4 C09-C12, §3.6",
    text="Every state x every rejectable operation (wrong name/class, other validation level, STRICT cardinality overflow, absent child, out-of-range index): whenever the real call raises, TLC requires the projected state (children of both parents, values, held objects) and both encodings to equal the ones before the call."),
})
CHECKS.update({
 "C11": dict(technique="TLA+ reference of lazy materialisation (Lazy.tla / LazyMC) model-checked by TLC; its state graph replayed on real segments, fields and messages; every read/write step judged by the TLC trace specification LazyTrace",
    text="Every order of writes to three leaf chains (depth up to 4, with groups) and reads of every prefix and of never-written chains in 15 ways (attribute chains by name / long name / upper case, indexing, len, iteration, repr, to_er7, validate, children.get), with random reads interleaved before each write: TLC requires a read to leave the recursive projection, the encoding and the validation verdict unchanged, and a write to add exactly the chain's elements, once each, at the defined position.",
    note="Trusted: TLC, Lazy.tla, the recursive public projection (.children, to_er7, validate). Roots: Segment PID, Field PID_3, Message ADT_A01, Message OML_O33; quick = v2.5, thorough = 2.5 and 2.5.1 (the chains are those of 2.5); both levels.",
    ref="DESIGN.md §4 C09-C12, §3.6"),
 "C06": dict(technique="TLA+ relation Escape!Allowed (delimiter-safe, well-formed, stable => unchanged) with a tokenising witness model-checked by TLC over all short strings; the same enumeration through every textual datatype class and through segments, judged by the TLC trace specification EscapeTrace",
    text="TLC shows over all strings up to the length bound that the reference satisfies the property, is idempotent and that its fixpoints are exactly the stable texts, and refutes the algorithm shipped in 1.3.x (negative control). All strings up to length 4 (thorough 5) over 12 roles plus random longer ones, rendered with 3 (thorough 8) delimiter sets including every regex metacharacter, go through each distinct textual class and through PID segments (field/component/subcomponent level, re-parse and re-encode); TLC decides each observation.",
    note="Trusted: TLC, Escape.tla (the list of multi-character sequences treated as already escaped is an assumption stated in the module), Er7!ParseSeg for the count clause. Delimiters are punctuation characters.",
    ref="DESIGN.md §4 C06, §3.2"),
})
CHECKS.update({
 "C16": dict(technique="TLA+ state machine of the MLLP server and its clients (Mllp.tla) model-checked by TLC (safety + liveness); the real request handler driven over a scripted connection for every chunking/fault the model's client actions describe, and a real loopback server with concurrent clients; each connection's observation judged by the TLC trace specification MllpTrace",
    text="TLC explores every chunking of the scripts, every interleaving of 2 clients and their handler threads (3 in thorough), early close and stall, and checks at-most-one call, outcome-is-a-function-of-consumed-bytes, full-frame-served, no cross-talk, line-is-prefix and eventual close. The real MLLPRequestHandler is then run for 16 script families x all two-way splits, delicate three-way and random k-way splits x fault after each chunk x ERR handler on/off, and concurrent TCP clients with distinct messages hit a real MLLPServer; TLC decides per connection: exactly the expected handler with exactly the framed text, that handler's reply and no other, closed; nothing for bad input.",
    note="Trusted: TLC, Mllp.tla/MllpFrame.tla, the scripted connection object (one client chunk per read). The handler receives the payload with its final segment terminator; the check demands exactly the bytes between start block and end block, which is the frame's text plus that CR, and that it re-parses to the same ER7. Real TCP scheduling is sampled, not controlled.",
    ref="DESIGN.md §4 C16, §3.9"),
})
CHECKS.update({
 "C19": dict(technique="TLA+ model of datatype_factory over the shared per-version datatype maps (Threads.tla) model-checked by TLC with and without the per-call copy; TLC behaviours forced on real threads through env-guarded yield points; preemptive stress; observations judged by the TLC trace specification ThreadsTrace",
    text="TLC checks all interleavings of 2 and 3 factory calls: shared maps untouched, each result equal to the result alone, every call returns; with Copy = FALSE it must find the 1.3.4 interference (negative control). All 252 maximal 2-thread schedules and simulated 3-thread schedules are forced on real threads (yield points after library load, after the map copy, after the overrides, before dispatch) with the real per-version maps compared against their pristine snapshot after every step; 8 threads then run a parse/build/encode/validate/factory corpus over all versions under a 1 microsecond switch interval and every result is compared with the same call run alone.",
    note="Trusted: TLC, Threads.tla, the scheduler in the harness. Forced switches exist only at the four yield points of datatype_factory (hook commit in /repo, guard HL7APY_VERIF); other shared-state touch points are exercised by preemptive stress only, which samples schedules.",
    ref="DESIGN.md §4 C19, §3.11, §6"),
})
CHECKS.update({
 "C17": dict(technique="TLA+ history generator (Defaults.tla) enumerated by TLC; its histories of default changes interleaved with explicit calls, creations and observations replayed in real processes; every recorded call/observation judged by the TLC trace specification DefaultsTrace",
    text="All histories up to length 4 over three values of each default (mapped onto all 12 versions in turn, both levels, three delimiter sets incl. a 2.7-style one) interleaved with Call / Create / Observe are generated by TLC; the ones ending in a call or observation under changed defaults are replayed: a corpus of about 110 explicit-argument calls per version (parsers at each level, constructors, builders, encoders, validators, datatype factories with valid, invalid and over-long values) must give the digests it gives under pristine defaults, and elements created earlier must encode and validate as when they were created.",
    note="Trusted: TLC, the digest (class name + ER7 text with explicit delimiters / exception class / validation counts). The baseline is the implementation itself under pristine defaults (metamorphic oracle). Known finding: stand-alone elements read the default delimiters lazily.",
    ref="DESIGN.md §4 C17, §3.10"),
})
CHECKS.update({
 "C13": dict(technique="TLA+ lexical definitions of DT/TM/DTM/NM/SI (Lexical.tla) with a TLC-enumerated boundary generator (LexicalMC); every generated string through datatype_factory / SubComponent at both levels, judged by the TLC trace specification LexicalTrace",
    text="TLC enumerates date/time strings slot by slot around every boundary (month 00/12/13, day 28-32 in leap/non-leap years, hour 24, minute/second 60, 0-5 fractional digits, offsets around -1200/+1400, malformed and doubled offsets, junk characters) and all strings over a numeric alphabet up to length 4 (thorough 5), checking laws between the definitions; each string is pushed through the real factories for DT, TM, DTM, NM, SI under STRICT and TOLERANT and TLC evaluates the lexical definition on the input to decide: STRICT accepts exactly the valid strings, over-long ones raise MaxLengthReached, accepted text (numerics: number, and text when plain) is preserved, TOLERANT rejects nothing and keeps the text.",
    note="Trusted: TLC, Lexical.tla (offset range -1200..+1400; .5, 5., +5 for SI and years below 1000 get no acceptance verdict). The five classes are shared by all versions that define them; the full grid runs once per distinct class plus a sample per further version. Known finding: TOLERANT re-spells valid numbers.",
    ref="DESIGN.md §4 C13, §3.3"),
})
CHECKS.update({
 "C14": dict(technique="TLA+ definition of which child a spelling designates (Resolve.tla) model-checked by TLC over small clashing structures; every table row probed on real elements through all spellings, judged by the TLC trace specification ResolveTrace",
    text="For every (version, segment) every field row is written through one spelling (HL7 name / long name x upper / lower / mixed case, cycling), read back (object identity and value) through all the others and deleted through another; per complex datatype (quick: 12 per version, thorough: all) the same for components (plus the positional path <field>_<j>) and subcomponents (plus <field>_<j>_<k>); names of other parents, non-existent indices, index 0 and unknown long names must raise ChildNotFound/ChildNotValid for reads and writes. TLC computes from the exported rows which child each spelling designates (unique long name, not an attribute name, not shadowed by a row name) and decides every probe.",
    note="Trusted: TLC, Resolve.tla, the harness' case folding. Long names that are ambiguous or shadowed get no verdict. Known findings: the v2.1 RX1_25 and 2.7/2.8.2 PV1_52 table defects.",
    ref="DESIGN.md §4 C14, §3.6"),
})
CHECKS.update({
 "C15": dict(technique="TLA+ transcription of the header functions with total accessors (Header.tla) model-checked by TLC for crash-freedom (with the unguarded 1.3.x variant as negative control); TLC-enumerated mutation plans applied to seed messages; outcome classes judged by the TLC trace specification HeaderTrace",
    text="TLC pushes every abstract header shape (prefix x separator string x number of fields x version) through the transcription of _split_msh / get_message_type and shows no index is read past the end; the unguarded variant is refuted. All mutation plans of depth <= 2 over 13 operators x 6 arguments (truncate, delete/duplicate delimiters, separator strings of length 0-6, dropped header fields, versions, garbled names, blank lines/line endings, junk, swapped lines, MSH-9 shapes, case, very long fields) are applied to 7 seed messages, plus truncation points, token junk and, per version, messages carrying every declared segment name; for each input and both levels and group-finding modes TLC checks: parse_message and get_message_type return or raise an HL7apyException (ValueError allowed under STRICT), and a parsed message encodes and validate(return_errors=True) returns a report.",
    note="Trusted: TLC, Header.tla, the isinstance(HL7apyException) test done by the harness. Agreement between the transcription's outcome class and the real get_message_type is reported as drift only.",
    ref="DESIGN.md §4 C15, §3.8"),
})
_GRP_TECH = "TLA+ reference of group finding (GroupFinder.tla: Sound, Flatten, Prescribed) model-checked by TLC on small structures x all short inputs; instances generated from every real message structure parsed by the real parser, the observed tree / encodings judged by the TLC trace specification GroupTrace (which also evaluates the Er7 leaf sequences)"
CHECKS.update({
 "C08": dict(technique=_GRP_TECH,
    text="TLC shows on a family of small structures x all inputs up to length 6 that the prescription is sound, flattens to its input and leaves no group empty. For message structures of all versions (quick: 22 per version; thorough: all ~2000) instances are generated - required-only, all-children, each optional node toggled, each repeatable group repeated 2x / 3x with all children, nested repetition, repeated segments - parsed with and without group finding, and TLC decides: every row is a declared child of its parent, the flattening equals the input, both encodings are equal, the tree equals the prescribed one when every segment name occurs at one place, and the message validates at segment/group level.",
    note="Trusted: TLC, GroupFinder.tla (a non-repeatable group whose member recurs propagates the repetition to the innermost repeatable enclosing group), the projection through .children. Structures with the ANYHL7SEGMENT placeholder are skipped (counted in the evidence notes). Known finding: NMD_N02-like nesting.",
    ref="DESIGN.md §4 C08, §3.4"),
 "C03": dict(technique=_GRP_TECH,
    text="Instances of message structures (quick: 7 per version; thorough: all) with rich segment lines (repetitions, components, subcomponents, fields beyond the defined count) and perturbations (Z / foreign segment after MSH, in the middle, at the end; duplicated member; run of Z-segments; reversed order) are parsed with and without group finding; TLC parses input and output lines with the Er7 reference grammar and requires the same segment names in the same order and, per segment, the same sequence of non-empty leaves - or an exception.",
    note="Trusted: TLC, Er7.tla, GroupTrace.tla. Known findings: content at withdrawn field positions is moved behind the defined fields; PV1-52 / ORO-3 table defects.",
    ref="DESIGN.md §4 C03, §3.4"),
})
CHECKS.update({
 "C04": dict(technique="TLA+ verdict function (Validate.tla: the errors a structure prescribes for a forest) model-checked by TLC on a nested structure; real messages generated from every structure, mutated through the API and validated in four ways; reports judged by the TLC trace specification ValidateTrace",
    text="For message structures of all versions (quick: 9 per version; thorough: all) generated instances are parsed and mutated (required segment removed, non-repeatable segment duplicated, group removed, foreign segment in a group / in the message, unknown field, duplicated field, Z-segment). TLC computes from the structure tables and the observed tree the exact set of missing / limit / invalid-child errors at message, group and segment level and requires the reported set to be equal (nothing missed, nothing invented), is_valid <=> no error, the raising form to raise the first reported error, report file object and path to list exactly the errors then the warnings, the encoding to be unchanged and a second validation to report the same.",
    note="Trusted: TLC, Validate.tla, the tokenisation of error texts into (kind, parent, child). Component-level and datatype/table/length checks are outside the compared levels. Structures with the ANYHL7SEGMENT placeholder are skipped.",
    ref="DESIGN.md §4 C04, §3.5"),
})
CHECKS.update({
 "C05": dict(technique="Two instances of the TLA+ reference container (Strict = TRUE / FALSE) compared by TLC over the STRICT state graph (StrictnessMC); the same TLC behaviours and a corpus of texts and leaf values executed in lock-step under STRICT and TOLERANT on real elements, judged by the TLC trace specification StrictnessTrace",
    text="TLC shows on every strict-reachable state x operation that each outcome STRICT accepts is an outcome TOLERANT accepts and that strict states never exceed a cardinality or hold a foreign / other-level child. Paths of the strict graph x operations and simulated strict walks (6 objects, 4 children, 3 names) are executed in lock-step on STRICT and TOLERANT copies of real segments and groups until STRICT refuses; segment lines with valid leaves and single deviations (invalid / over-long leaf, too many repetitions, components, subcomponents, fields), leaf pools of every base datatype, fields, components and messages are parsed at both levels. TLC requires: accepted under STRICT => accepted under TOLERANT, same encoding, same validation report, and no validator error other than missing required children.",
    note="Trusted: TLC, ElementTree.tla, the classification of validator errors from their text. Known findings: STRICT encodes groups in structure order (TOLERANT: insertion order); STRICT accepts Z-segments but does not encode them.",
    ref="DESIGN.md §4 C05, §3.7"),
})
CHECKS.update({
 "C18": dict(technique="TLA+ law of profile precedence (ProfileMC over Validate.tla) model-checked by TLC; profiles synthesised from real structures by single constraint edits and exercised through every creation path; creation observations judged by the TLC trace specification ProfileTrace and validation against the PROFILE's structure by ValidateTrace",
    text="TLC checks, for every single edit (restate, tighten, require, forbid) of every node of a nested structure and all prescribed forests, that the verdicts under profile and standard differ only in errors naming the edited child, that restating changes nothing and that a forbidden child is reported. Per version (quick: 3, thorough: 40) message structures, the restated profile (build / parse / encode / validate digests equal with and without it) and one-edit profiles at segment, group, field, component and subcomponent level plus leaf datatype swaps are exercised through traversal, add_* and assignment under STRICT until the parent refuses (datatype carried by the child, cardinality enforced) and through parsing + validate(), whose errors TLC compares with those prescribed by the profile's own structure tables; the shipped ITI-21 profile; MessageProfileNotFound / LegacyMessageProfile.",
    note="Trusted: TLC, Validate.tla, the synthesis of profiles by editing a private copy of the standard reference tree (same nested format as a compiled profile). Paths below MSH are not edited (the message creates MSH itself).",
    ref="DESIGN.md §4 C18, §3.10"),
})
CHECKS.update({
 "C01": dict(technique="TLA+ reference grammar (Er7.tla) with a TLC-enumerated space of abstract documents (Er7MC); the documents embedded into every real segment definition and parsed / re-encoded through every parser entry point; TLC (Er7Trace) computes the premise (canonical, within the exported shape, well-formed leaves) and decides identity",
    text="TLC checks the grammar's laws on the bounded document space (round trip, trimming = canonical form, fixpoint, leaves kept, position law, closure) and hands its reachable documents to the harness, which embeds them into (quick: 30 per version; thorough: all ~1900) segment definitions at field slots whose datatype admits the shape, with leaves from per-datatype pools (text with inner blanks, escape sequences incl. multi-character ones, dates, times, numbers), plus sparsely and densely populated full segments; every text goes through parse_segment, parse_message with group finding on and off, parse_field and parse_component under TOLERANT, and TLC demands the encoding to equal the text whenever the text is in the property's domain.",
    note="Trusted: TLC, Er7.tla / Escape.tla (premise), the exported shapes (counts of components and subcomponents per field). Numeric leaves are generated in plain decimal form, dates within years 1000-9999. Known finding: v2.1 RX1 rows.",
    ref="DESIGN.md §4 C01, §3.1"),
})
CHECKS.update({
 "C07": dict(technique="TLA+ reference grammar (Er7.tla) whose closure law TLC checks on the bounded document space; messages BUILT through the API under arbitrary delimiter sets, the abstract tree handed to TLC, which (Er7Trace!DelimsVerdict) demands the real encoding to equal EncMsg(tree, ec)",
    text="For ordered choices of 5 distinct characters out of 28 punctuation marks (quick: the default, its four cyclic shifts and 70 random sets per version; thorough: 900 per version including all arrangements of 8 marks), for versions >= 2.7 also with a sixth (truncation) character, x 12 versions x both levels, an ADT_A01 with a repeated field, components and subcomponents is built with Message(..., encoding_chars=ec). TLC joins the abstract tree with the given set and requires: the real to_er7() equals it, MSH-1/MSH-2 spell the set, the truncation character appears iff supplied, encoding_chars reads back equal on the message and every descendant, parsing the output recovers the set and an identically encoding tree, to_mllp() frames the same text; 17 defective sets (each key missing, each pair duplicated incl. TRUNCATION, non-mappings) must raise InvalidEncodingChars through Message, check_encoding_chars and set_default_encoding_chars.",
    note="Trusted: TLC, Er7.tla, the abstract tree the harness builds next to the API calls. Leaf values are alphanumeric (escaping is C06); '.' is not used as a delimiter because it occurs in every MSH-12 version id.",
    ref="DESIGN.md §4 C07, §3.1"),
})
NOT_YET = {}
# what was added to each check after its first version (appended to the level text)
ADDENDA = {
 "C01": "Empty repetitions before or between valued ones are part of the canonical domain.",
 "C02": "The emitted text is read back by parse_segment and, for every MSH case and every seventh other, by Segment(name).value = text.",
 "C03": "Inputs also carry the same unlisted segment name at several places (inside open groups), empty first / middle repetitions, and a variant written with the delimiters ! $ @ * ?.",
 "C04": "Further mutations: a foreign / Z segment or an unknown field added and removed again, a field with a bounded maximum above one at and above its maximum; every such field of every version in a segment validated on its own; components of fields of complex datatypes (missing / limit); group rows are matched to structure nodes by descent; the verdict must not depend on what was validated before (the same observations in two orders of the versions, in one process).",
 "C05": "Objects built at the other level carry an overridden datatype (same text) so that letting one in shows in validate(); every history of HandlesMC (kept traversal handles x assigning x attaching six ways x writing through handles) is executed at both levels and judged against Handles!Step; about 520 single calls per version (constructors x names x datatype overrides x values, fields beyond the defined ones, objects built elsewhere assigned six ways, whole child lists) are made at both levels.",
 "C06": "Classes are paired with the delimiter family of the version that uses them (six delimiters from 2.7 on, also without the optional truncation character).",
 "C08": "Every third instance is also parsed with content in the segments and the delimiters ! $ @ * ?.",
 "C09": "The model has the operation Adopt (p.children = q.children); the quick tier uses another version than the default one for two of the three concretisations.",
 "C10": "Step and view verdicts are independent (a wrong state does not hide a sharing); the probes of atomic.py (moves of attached children to parents of another level / version six ways, assignments below absent children, whole-value and child-list assignments) are judged for consistency of every (lister, listed child) pair.",
 "C11": "Open-ended segments QPD and ZIN (reads of fields beyond the defined ones), the encoding with trailing children, and the same-write law: one text written through a chain that does not exist yet, through a chain whose last element is missing and through a chain built beforehand leaves the same elements and encoding, with default and custom delimiters.",
 "C12": "atomic.py probes: whole-value / child-list assignment, datatype change, invalid leaves, absent / foreign children, an attached child handed six ways to a parent of another level or version, a refused element assigned below a child that does not exist yet; the projection carries the parent pointers.",
 "C13": "The generator also replaces a digit of a slot by a blank or a letter; for NM a sign in front of a text must not change its acceptance.",
 "C14": "Creation through add_field / add_component / add_subcomponent by every spelling.",
 "C15": "The header model refuses blank encoding characters (as the code does since 2088a40).",
 "C16": "Handlers are also registered with constructor arguments (the replies carry them); every third loopback round makes the handlers' invocations overlap through a barrier.",
 "C18": "The parent of the edited child itself comes into being by add_*, by traversal, by parse_message(..., message_profile=) (last repetition of every repeatable group on the way) and by ER7 assignment to its own parent; profile component tables are applied to the field-level comparison.",
 "C19": "First use: one fresh interpreter per observation - the first two calls of a version forced through 'A runs p steps, B runs completely, A finishes' and mirrored, and two threads first-using a version at the same time with delays 0-300 ms.",
}

ADDENDA2 = {
 "C19": "One forced preemption before every source line a call executes inside hl7apy (sys.settrace, no hooks): A stops, the partner - an ordinary call or a bulk of calls on fresh values - runs completely, A resumes.",
 "C16": "Quick tier frames messages of 2.8.1 and 2.8.2 too (five encoding characters, a version that is no decimal number).",
 "C11": "Rounds of 'write through the pending chain, delete its top element' before the same write: what was created and deleted before does not matter.",
 "C07": "MSH-12 with a second component written with the message's own component separator; an event no structure is known for (the parser's fallback).",
 "C01": "Every job runs in a process of its own, after something of the other escaping family has been encoded there.",
 "C03": "Quick tier: every structure of every version is at least instantiated once with all its members.",
 "C04": "Segments validated on their own: a value at every leaf the version defines (no error), content in a segment the version defines without fields (reported).",
 "C05": "Constructor scenarios carry the datatype given and the one the tables give: STRICT accepting another one is a violation (datatype_overridden_under_strict). Named children of another structure handed to a parent six ways (foreign_child_accepted_by_strict).",
 "C06": "Datatype objects are handed over three ways: leaf.value = obj, parent.<name> = obj, the latter inside a message that has the delimiters as its own.",
 "C08": "Quick tier: every structure of every version is at least instantiated once with all its members. The same text parsed under STRICT: same tree where the names are unambiguous, every line as often as in the input.",
 "C09": "Operation SetAtObj (children[i] = element). Operation SetDeep (a write through the child; histories ending in one are replayed with every operation); SetName / SetIdx also hand the value over as a datatype object.",
 "C10": "Operation SetAtObj (children[i] = element): refused unless the element carries the name of the child at that position. Operations SetDeep and datatype-object assignments as in C09.",
 "C12": "Operation SetAtObj (children[i] = element). Operation SetDeep; probes: a datatype object of another class through the parent's attribute, copies from a proxy with two repetitions, refused values for MSH-1 / MSH-2.",
 "C14": "Components created by a text assigned through their field; complex components of another version are written first; one process per job.",
 "C17": "The library's own constant DEFAULT_ENCODING_CHARS handed over as the explicit argument; to_er7() without arguments of every level inside a message with its own delimiters.",
 "C18": "Complex components of messages parsed with the profile at both levels: the datatypes of their subcomponents and validate() of the component alone follow the profile (ProfileTrace k=below).",
}

def main():
    props = [json.loads(l) for l in open(os.path.join(HERE, "properties.jsonl"))]
    checks = []
    na = []
    for p in props:
        pid = p["id"]
        if pid in CHECKS:
            c = CHECKS[pid]
            checks.append({
                "property_id": pid,
                "quick_cmd": "./check %s --tier quick" % pid,
                "thorough_cmd": "./check %s --tier thorough" % pid,
                "evidence_file": "/verif/evidence/%s.json" % pid,
                "replay_cmd_template": "./check %s --replay {path}" % pid,
                "engine": "tlc",
                "level_claimed": {"category": "model_checking", "text": (c["text"] + " " + ADDENDA.get(pid, "") + " " + ADDENDA2.get(pid, "")).strip(), "design_ref": c["ref"]},
                "level_note": c["note"],
                "technique": c["technique"],
            })
        else:
            na.append({"property_id": pid, "reason": NOT_YET.get(pid, "check not built yet in this round (planned: see DESIGN.md §4); no claim is made")})
    m = {
        "version": 1,
        "setup_cmd": "./setup.sh",
        "hooks": {"guard": "HL7APY_VERIF", "enable": "HL7APY_VERIF=1 in the environment of the check (set by ./check); hl7apy is imported from /repo's working tree, nothing is built",
                  "baseline_off_cmd": "cd /repo && env -u HL7APY_VERIF /venv/bin/python -m pytest -q -p no:cacheprovider --timeout=900",
                  "source_commits": ["c0c81e2"], "add_only": True},
        "engines": [{"name": "tlc", "path": "/verif/spec", "serves_properties": sorted(CHECKS),
                     "kind_free_text": "explicit TLA+ specifications checked with TLC 1.8; trace specifications judge NDJSON observations of the real code; TLC-generated behaviours are replayed into the real code"}],
        "checks": checks,
        "not_applicable": na,
        "notes": "All checks: ./check <ID> --tier quick|thorough. Exit 0 held, 1 VIOLATION, 2 machinery failure. Known findings: /verif/known_findings.json.",
    }
    json.dump(m, open(os.path.join(HERE, "MANIFEST.json"), "w"), indent=1)
if __name__ == "__main__":
    main()
