#!/bin/sh
# runs every registered quick (or thorough) check on /repo's working tree; prints one line per property
cd "$(dirname "$0")"
TIER=${1:-quick}
for p in $(python3 -c "import json; print(' '.join(c['property_id'] for c in json.load(open('MANIFEST.json'))['checks']))"); do
  s=$(date +%s)
  ./check $p --tier $TIER > /tmp/runall_$p.out 2>&1
  rc=$?
  echo "$p exit=$rc $(( $(date +%s) - s ))s $(grep -c '^KNOWN-FINDING' /tmp/runall_$p.out) known $(grep -c '^VIOLATION' /tmp/runall_$p.out) violations"
done
