#!/usr/bin/env python3
"""Collect, confirm and run the checks against seeded changes.
  tools_seeded.py collect C09            copy /tmp/seed_C09/out/* into /verif/seeded/C09_<k>/
  tools_seeded.py confirm C09_1          scratch worktree: suite still passes, demo fails with / passes without
  tools_seeded.py detect C09_1 [PID..]   apply to /repo, run ./check <PID> --tier quick, undo; records meta.json"""
import json, os, shutil, subprocess, sys, glob
V = os.path.dirname(os.path.abspath(__file__))
SUITE = "unshare -rn sh -c 'ip link set lo up; /venv/bin/python -m pytest -q -p no:cacheprovider -x'"

def sh(cmd, cwd=None, timeout=3600):
    p = subprocess.run(cmd, shell=True, cwd=cwd, stdout=subprocess.PIPE, stderr=subprocess.STDOUT, timeout=timeout)
    return p.returncode, p.stdout.decode("utf-8", "replace")

def meta_path(sid): return os.path.join(V, "seeded", sid, "meta.json")
def load(sid):
    try: return json.load(open(meta_path(sid)))
    except Exception: return {"id": sid, "property": sid.split("_")[0]}
def save(sid, m): json.dump(m, open(meta_path(sid), "w"), indent=1)

def collect(pid):
    src = "/tmp/seed_%s/out" % pid
    for p in sorted(glob.glob(src + "/patch*.diff")):
        k = os.path.basename(p)[5:-5]
        sid = "%s_%s" % (pid, k)
        d = os.path.join(V, "seeded", sid); os.makedirs(d, exist_ok=True)
        shutil.copy(p, d + "/patch.diff")
        for a, b in (("demo%s.py" % k, "demo.py"), ("notes%s.md" % k, "notes.md")):
            if os.path.exists(src + "/" + a): shutil.copy(src + "/" + a, d + "/" + b)
        m = load(sid); m["needs"] = open(d + "/notes.md").read()[:1500] if os.path.exists(d + "/notes.md") else ""
        save(sid, m); print("collected", sid)

def confirm(sid):
    d = os.path.join(V, "seeded", sid); wt = "/tmp/confirm_" + sid
    sh("git -C /repo worktree remove --force %s" % wt)
    rc, out = sh("git -C /repo worktree add -q %s HEAD" % wt)
    m = load(sid)
    try:
        os.makedirs(wt + "/out", exist_ok=True)
        shutil.copy(d + "/demo.py", wt + "/out/demo.py")
        DEMO = "PYTHONPATH=%s /venv/bin/python out/demo.py" % wt
        rc0, o0 = sh(DEMO, cwd=wt, timeout=300)
        rc, o = sh("git apply %s/patch.diff" % d, cwd=wt)
        if rc != 0: m["confirmed"] = False; m["confirm_note"] = "patch does not apply: " + o[-300:]; return
        rcs, os_ = sh(SUITE, cwd=wt, timeout=900)
        rc1, o1 = sh(DEMO, cwd=wt, timeout=300)
        m["suite_with_change"] = os_.strip().splitlines()[-1] if os_.strip() else ""
        m["demo_without_change_exit"] = rc0; m["demo_with_change_exit"] = rc1
        m["confirmed"] = (rcs == 0 and "353 passed" in os_ and rc0 == 0 and rc1 != 0)
        m["ran"] = ["git apply patch.diff in a scratch worktree of /repo HEAD", SUITE, "/venv/bin/python demo.py (with and without the change)"]
    finally:
        save(sid, m); sh("git -C /repo worktree remove --force %s" % wt)
        print(sid, "confirmed" if m.get("confirmed") else "NOT CONFIRMED", m.get("suite_with_change"), m.get("demo_without_change_exit"), m.get("demo_with_change_exit"))

def detect(sid, pids, tier="quick"):
    """runs the checks against a scratch worktree of /repo HEAD with the change applied (VERIF_REPO), so that /repo
    itself is never left modified; equivalent to `git -C /repo apply` + check + `git -C /repo checkout -- .`"""
    d = os.path.join(V, "seeded", sid); m = load(sid); wt = "/tmp/detect_" + sid + os.environ.get("DETECT_SUFFIX", "")
    sh("git -C /repo worktree remove --force %s" % wt)
    sh("git -C /repo worktree add -q %s HEAD" % wt)
    rc, o = sh("git apply %s/patch.diff" % d, cwd=wt)
    if rc != 0:     # /repo has moved on since the change was written (fix: commits): three-way, then fuzzy
        rc, o = sh("git apply --3way %s/patch.diff && git reset -q && ! grep -rl '^<<<<<<< ' hl7apy" % d, cwd=wt)
    if rc != 0:
        sh("git reset -q --hard HEAD && git clean -fdq", cwd=wt)
        rc, o = sh("patch -p1 -s -F3 --no-backup-if-mismatch < %s/patch.diff" % d, cwd=wt)
    if rc != 0:
        print(sid, "patch does not apply:", o[-300:].replace("\n", " ")); sh("git -C /repo worktree remove --force %s" % wt); return
    try:
        for pid in pids:
            rc, o = sh("VERIF_REPO=%s ./check %s --tier %s" % (wt, pid, tier), cwd=V, timeout=7200)
            viol = [l[:260] for l in o.splitlines() if l.startswith("VIOLATION")][:3]
            m.setdefault("detection", {})["%s/%s" % (pid, tier)] = {"exit": rc, "violations": viol}
            print(sid, pid, tier, "exit", rc, viol[:1])
    finally:
        sh("git -C /repo worktree remove --force %s" % wt)
        save(sid, m)

def table():
    """Rewrite the seeded-change table in DESIGN.md from seeded/*/meta.json."""
    rows = ["| change | what it breaks (first line of the author's note) | confirmed | caught by |", "|---|---|---|---|"]
    for mp in sorted(glob.glob(os.path.join(V, "seeded", "*", "meta.json"))):
        m = json.load(open(mp))
        first = ""
        for ln in (m.get("needs") or "").splitlines():
            ln = ln.strip().lstrip("#").strip()
            if ln: first = ln; break
        first = first.replace("|", "/")[:110]
        det = m.get("detection", {})
        caught = sorted(k for k, v in det.items() if v.get("exit") == 1 and v.get("violations"))
        missed = sorted(k for k, v in det.items() if not (v.get("exit") == 1 and v.get("violations")))
        c = ", ".join(caught) if caught else "**missed**"
        if missed and caught: c += " (not by " + ", ".join(missed) + ")"
        rows.append("| %s | %s | %s | %s |" % (m["id"], first, "yes" if m.get("confirmed") else "NO", c))
    p = os.path.join(V, "DESIGN.md"); s = open(p).read()
    a, b = "<!-- SEEDED-TABLE-BEGIN -->", "<!-- SEEDED-TABLE-END -->"
    i, j = s.index(a) + len(a), s.index(b)
    s = s[:i] + "\n" + "\n".join(rows) + "\n" + s[j:]
    open(p, "w").write(s); print("table:", len(rows) - 2, "rows")

if __name__ == "__main__":
    a = sys.argv[1:]
    if a[0] == "table": table(); sys.exit(0)
    if a[0] == "collect": collect(a[1])
    elif a[0] == "confirm": confirm(a[1])
    elif a[0] == "detect":
        tier = "quick"
        if "--thorough" in a: a.remove("--thorough"); tier = "thorough"
        detect(a[1], a[2:] or [a[1].split("_")[0]], tier)
